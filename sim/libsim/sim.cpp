// libsim - see sim.h and DESIGN.md section 2.
//
// Everything in the extern "C" part at the bottom pre-empts libc for the whole
// process.  When the simulation is not active, or the calling thread is not a
// managed one, every wrapper passes straight through to the real function.

#ifndef _GNU_SOURCE
#    define _GNU_SOURCE
#endif
#include "sim.h"

#include <atomic>
#include <cerrno>
#include <cstdarg>
#include <cstdio>
#include <cstdlib>
#include <cstring>
#include <dlfcn.h>
#include <fcntl.h>
#include <linux/futex.h>
#include <poll.h>
#include <pthread.h>
#include <signal.h>
#include <sys/eventfd.h>
#include <sys/mman.h>
#include <sys/stat.h>
#include <sys/syscall.h>
#include <sys/time.h>
#include <sys/types.h>
#include <syslog.h>
#include <time.h>
#include <unistd.h>

namespace sim {

// ------------------------------------------------------------- raw syscall --
static inline long raw_syscall6(long n, long a1, long a2, long a3, long a4, long a5, long a6)
{
    long ret;
    register long r10 __asm__("r10") = a4;
    register long r8 __asm__("r8") = a5;
    register long r9 __asm__("r9") = a6;
    __asm__ volatile("syscall"
                     : "=a"(ret)
                     : "a"(n), "D"(a1), "S"(a2), "d"(a3), "r"(r10), "r"(r8), "r"(r9)
                     : "rcx", "r11", "memory");
    return ret;
}
static inline void raw_futex_wait(std::atomic<int> *addr, int val)
{
    raw_syscall6(SYS_futex, (long)addr, FUTEX_WAIT, val, 0, 0, 0);
}
static inline void raw_futex_wake(std::atomic<int> *addr, int n)
{
    raw_syscall6(SYS_futex, (long)addr, FUTEX_WAKE, n, 0, 0, 0);
}

// ------------------------------------------------------------ real symbols --
#define REAL_DECL(ret, name, ...) \
    typedef ret (*name##_fn)(__VA_ARGS__); \
    static name##_fn real_##name = nullptr;

REAL_DECL(int, pthread_create, pthread_t *, const pthread_attr_t *, void *(*)(void *), void *)
REAL_DECL(int, pthread_join, pthread_t, void **)
REAL_DECL(int, pthread_mutex_lock, pthread_mutex_t *)
REAL_DECL(int, pthread_mutex_trylock, pthread_mutex_t *)
REAL_DECL(int, pthread_mutex_unlock, pthread_mutex_t *)
REAL_DECL(int, pthread_cond_wait, pthread_cond_t *, pthread_mutex_t *)
REAL_DECL(int, pthread_cond_timedwait, pthread_cond_t *, pthread_mutex_t *, const struct timespec *)
REAL_DECL(int, pthread_cond_clockwait, pthread_cond_t *, pthread_mutex_t *, clockid_t, const struct timespec *)
REAL_DECL(int, pthread_cond_signal, pthread_cond_t *)
REAL_DECL(int, pthread_cond_broadcast, pthread_cond_t *)
REAL_DECL(int, pthread_cancel, pthread_t)
REAL_DECL(int, ppoll, struct pollfd *, nfds_t, const struct timespec *, const sigset_t *)
REAL_DECL(int, poll, struct pollfd *, nfds_t, int)
REAL_DECL(int, nanosleep, const struct timespec *, struct timespec *)
REAL_DECL(int, clock_nanosleep, clockid_t, int, const struct timespec *, struct timespec *)
REAL_DECL(int, usleep, useconds_t)
REAL_DECL(int, sched_yield, void)
REAL_DECL(int, clock_gettime, clockid_t, struct timespec *)
REAL_DECL(int, gettimeofday, struct timeval *, void *)
REAL_DECL(time_t, time, time_t *)
REAL_DECL(ssize_t, write, int, const void *, size_t)
REAL_DECL(ssize_t, read, int, void *, size_t)
REAL_DECL(int, eventfd_write, int, eventfd_t)
REAL_DECL(int, open64, const char *, int, ...)
REAL_DECL(int, open, const char *, int, ...)
REAL_DECL(int, close, int)
REAL_DECL(int, renameat2, int, const char *, int, const char *, unsigned int)
REAL_DECL(int, rename, const char *, const char *)
REAL_DECL(int, link, const char *, const char *)
REAL_DECL(int, linkat, int, const char *, int, const char *, int)
REAL_DECL(int, unlink, const char *)
REAL_DECL(int, ftruncate64, int, off64_t)
REAL_DECL(int, ftruncate, int, off_t)
REAL_DECL(int, isatty, int)
REAL_DECL(pid_t, getpid, void)
REAL_DECL(void, abort, void)
typedef long (*syscall_fn)(long, ...);
static syscall_fn real_syscall = nullptr;

static std::atomic<int> g_real_ready { 0 };

static void *next_sym(const char *name, const char *ver = nullptr)
{
    void *p = nullptr;
    if (ver)
        p = dlvsym(RTLD_NEXT, name, ver);
    if (!p)
        p = dlsym(RTLD_NEXT, name);
    return p;
}

static void resolve_real()
{
    if (g_real_ready.load(std::memory_order_acquire))
        return;
#define R(name) real_##name = (name##_fn)next_sym(#name)
#define RV(name, ver) real_##name = (name##_fn)next_sym(#name, ver)
    R(pthread_create);
    R(pthread_join);
    R(pthread_mutex_lock);
    R(pthread_mutex_trylock);
    R(pthread_mutex_unlock);
    RV(pthread_cond_wait, "GLIBC_2.3.2");
    RV(pthread_cond_timedwait, "GLIBC_2.3.2");
    R(pthread_cond_clockwait);
    RV(pthread_cond_signal, "GLIBC_2.3.2");
    RV(pthread_cond_broadcast, "GLIBC_2.3.2");
    R(pthread_cancel);
    R(ppoll);
    R(poll);
    R(nanosleep);
    R(clock_nanosleep);
    R(usleep);
    R(sched_yield);
    R(clock_gettime);
    R(gettimeofday);
    R(time);
    R(write);
    R(read);
    R(eventfd_write);
    R(open64);
    R(open);
    R(close);
    R(renameat2);
    R(rename);
    R(link);
    R(linkat);
    R(unlink);
    R(ftruncate64);
    R(ftruncate);
    R(isatty);
    R(getpid);
    R(abort);
    real_syscall = (syscall_fn)next_sym("syscall");
#undef R
#undef RV
    g_real_ready.store(1, std::memory_order_release);
}

struct RealInit
{
    RealInit() { resolve_real(); }
};
static RealInit g_real_init __attribute__((init_priority(101)));

#define ENSURE_REAL() \
    do { \
        if (__builtin_expect(!g_real_ready.load(std::memory_order_acquire), 0)) \
            resolve_real(); \
    } while (0)

// --------------------------------------------------------------------- shm --
static Shm *g_shm = nullptr;

Shm *shm_create()
{
    void *p = mmap(nullptr, sizeof(Shm), PROT_READ | PROT_WRITE, MAP_SHARED | MAP_ANONYMOUS, -1, 0);
    if (p == MAP_FAILED) {
        perror("mmap shm");
        _exit(2);
    }
    return (Shm *)p;
}
void shm_attach(Shm *s)
{
    g_shm = s;
}
Shm *shm()
{
    return g_shm;
}
void shm_reset()
{
    if (!g_shm)
        return;
    // only the header and the used parts need clearing
    memset(g_shm, 0, offsetof(Shm, choices));
}

uint64_t fnv1a(const void *p, size_t n, uint64_t h)
{
    const unsigned char *c = (const unsigned char *)p;
    for (size_t i = 0; i < n; i++) {
        h ^= c[i];
        h *= 0x100000001b3ull;
    }
    return h;
}

static uint64_t g_hash = 0xcbf29ce484222325ull;
static uint64_t g_proj = 0xcbf29ce484222325ull;
static std::atomic<uint32_t> g_seq { 0 };

void count(uint32_t c, uint32_t n)
{
    if (g_shm && c < N_COUNTERS)
        __atomic_fetch_add(&g_shm->counters[c], n, __ATOMIC_RELAXED);
}

thread_local int t_id = -1;

void ev(uint16_t kind, int64_t a, int64_t b, int64_t c, const char *s, size_t slen)
{
    if (!g_shm)
        return;
    uint32_t i = __atomic_fetch_add(&g_shm->nevents, 1, __ATOMIC_RELAXED);
    if (i >= MAX_EVENTS) {
        __atomic_store_n(&g_shm->nevents, MAX_EVENTS, __ATOMIC_RELAXED);
        __atomic_fetch_add(&g_shm->events_dropped, 1, __ATOMIC_RELAXED);
        return;
    }
    Event &e = g_shm->events[i];
    e.seq = g_seq.fetch_add(1);
    e.tid = (int16_t)t_id;
    e.kind = kind;
    e.a = a;
    e.b = b;
    e.c = c;
    e.s_off = 0;
    e.s_len = 0;
    if (s && slen) {
        uint32_t off = __atomic_fetch_add(&g_shm->pool_used, (uint32_t)slen, __ATOMIC_RELAXED);
        if (off + slen <= POOL_BYTES) {
            memcpy(g_shm->pool + off, s, slen);
            e.s_off = off;
            e.s_len = (uint32_t)slen;
        } else {
            __atomic_fetch_add(&g_shm->events_dropped, 1, __ATOMIC_RELAXED);
        }
    }
    int64_t hrec[5] = { e.tid, kind, a, b, c };
    g_hash = fnv1a(hrec, sizeof hrec, g_hash);
    if (s && slen)
        g_hash = fnv1a(s, slen, g_hash);
}

void trace_reset()
{
    g_hash = 0xcbf29ce484222325ull;
    g_proj = 0xcbf29ce484222325ull;
    g_seq.store(0);
}
uint64_t trace_hash_now()
{
    return g_hash;
}
std::string ev_str(const Shm *s, const Event &e)
{
    if (!e.s_len)
        return std::string();
    return std::string(s->pool + e.s_off, e.s_len);
}

// ------------------------------------------------------------------- clock --
static int64_t g_mono = 1000 * SEC;
static int64_t g_wall_epoch = 1767225600ll * SEC; // 2026-01-01T00:00:00Z
static int64_t g_mono0 = 1000 * SEC; // wall = g_wall_epoch + (g_mono - g_mono0) + g_wall_off
static int64_t g_wall_off = 0;
static thread_local ClockReads t_reads;
static thread_local bool t_reads_on = false;

void clock_set(int64_t wall_epoch_ns, int64_t mono_ns)
{
    g_wall_epoch = wall_epoch_ns;
    g_mono = g_mono0 = mono_ns;
    g_wall_off = 0;
}
int64_t mono_now()
{
    return g_mono;
}
int64_t wall_now()
{
    return g_wall_epoch + (g_mono - g_mono0) + g_wall_off;
}
void clock_advance(int64_t ns)
{
    g_mono += ns;
}
void wall_jump(int64_t ns)
{
    g_wall_off += ns;
    count(C_CLOCK_JUMP);
}
ClockState clock_save()
{
    return ClockState { g_mono, g_wall_epoch, g_mono0, g_wall_off };
}
void clock_restore(const ClockState &s)
{
    g_mono = s.mono;
    g_wall_epoch = s.epoch;
    g_mono0 = s.mono0;
    g_wall_off = s.off;
}
void clock_reads_begin()
{
    t_reads.n_wall = t_reads.n_mono = 0;
    t_reads_on = true;
}
const ClockReads &clock_reads()
{
    return t_reads;
}

static bool g_active = false; // scheduler active
static bool g_clock_tick = false; // reads advance time (tsim managed threads, fsim always)
static bool g_was_active = false;

static inline bool managed()
{
    return g_active && t_id >= 0;
}

static void clock_yield_point(); // below the scheduler

static int64_t read_clock(bool wall)
{
    if (managed())
        clock_yield_point();
    if (managed() || g_clock_tick)
        g_mono += 1 * US;
    int64_t v = wall ? wall_now() : g_mono;
    if (t_reads_on) {
        if (wall) {
            if (t_reads.n_wall < 24)
                t_reads.wall[t_reads.n_wall++] = v;
        } else {
            if (t_reads.n_mono < 24)
                t_reads.mono[t_reads.n_mono++] = v;
        }
    }
    return v;
}

// --------------------------------------------------------------- scheduler --
namespace {

constexpr int MAXT = 64;
enum TS : int { T_UNUSED = 0, T_NEW, T_RUNNABLE, T_BLOCKED, T_FINISHED };
enum BK : int { B_NONE = 0, B_FUTEX, B_COND, B_MUTEX, B_POLL, B_SLEEP, B_JOIN, B_GATE };
const char *bk_name(int b)
{
    static const char *n[] = { "none", "futex", "cond", "mutex", "poll", "sleep", "join", "gate" };
    return n[b];
}

struct Thr
{
    int state = T_UNUSED;
    int bkind = B_NONE;
    const void *bkey = nullptr;
    int64_t deadline = -1;
    bool timed_out = false;
    uint64_t block_seq = 0;
    std::atomic<int> go { 0 };
    const char *tag = "";
    uint32_t last_chosen = 0;
    uint32_t runnable_since = 0;
    int64_t starved_ns = 0;
    int prio = 0;
    void *(*start)(void *) = nullptr;
    void *arg = nullptr;
    pthread_t real {};
    char name[16] = "";
};

struct Sched
{
    SchedConfig cfg;
    Rng rng;
    Thr t[MAXT];
    int nthreads = 0;
    int current = -1;
    uint32_t ndec = 0;
    uint32_t nsw = 0;
    uint64_t block_seq = 0;
    int64_t start_mono = 0;
    int rr_left = 0;
    int low_prio = 0;
    uint32_t change_points[8];
    int n_change = 0;
    int64_t busy_adv_total = 0;
};
Sched *S = nullptr;

void describe_threads(char *buf, size_t n)
{
    size_t o = 0;
    for (int i = 0; i < S->nthreads && o + 160 < n; i++) {
        Thr &t = S->t[i];
        const char *st = t.state == T_NEW ? "new"
                : t.state == T_RUNNABLE   ? "runnable"
                : t.state == T_BLOCKED    ? "blocked"
                : t.state == T_FINISHED   ? "finished"
                                          : "unused";
        o += snprintf(buf + o, n - o, "[T%d %s %s", i, t.name, st);
        if (t.state == T_BLOCKED) {
            o += snprintf(buf + o, n - o, " in %s", bk_name(t.bkind));
            if (t.deadline >= 0)
                o += snprintf(buf + o, n - o, " until +%lldms", (long long)((t.deadline - g_mono) / MS));
        }
        o += snprintf(buf + o, n - o, " at %s] ", t.tag ? t.tag : "");
    }
}

void finalize_shm()
{
    if (!g_shm)
        return;
    g_shm->trace_hash = g_hash;
    g_shm->proj_hash = g_proj;
    g_shm->ndecisions = S ? S->ndec : 0;
    g_shm->nswitches = S ? S->nsw : 0;
    g_shm->sim_ns_end = S ? (g_mono - S->start_mono) : 0;
}

inline void make_runnable(Thr &t, bool timed_out = false)
{
    t.state = T_RUNNABLE;
    t.bkind = B_NONE;
    t.bkey = nullptr;
    t.deadline = -1;
    t.timed_out = timed_out;
    t.runnable_since = S->ndec;
    t.starved_ns = 0;
}

inline bool tag_enabled(const char *tag)
{
    if (S->cfg.yield_pct >= 100)
        return true;
    if (S->cfg.yield_pct <= 0)
        return false;
    uint64_t h = fnv1a(tag, strlen(tag)) ^ S->cfg.yield_mask_seed;
    return (splitmix64(h) % 100) < (uint64_t)S->cfg.yield_pct;
}

void record_choice(uint8_t c)
{
    if (g_shm && g_shm->nchoices < MAX_CHOICES)
        g_shm->choices[g_shm->nchoices++] = c;
}

int pick()
{
    for (;;) {
        if (S->ndec >= S->cfg.max_decisions) {
            char buf[1500];
            describe_threads(buf, sizeof buf);
            fail_run(ST_SIMFAIL, "cap-decisions", "%u decisions; %s", S->ndec, buf);
        }
        if (g_mono - S->start_mono > S->cfg.max_sim_ns) {
            char buf[1500];
            describe_threads(buf, sizeof buf);
            fail_run(ST_SIMFAIL, "cap-time", "%lld simulated ms; %s",
                     (long long)((g_mono - S->start_mono) / MS), buf);
        }
        uint32_t idx = S->ndec++;

        // expire timers
        int64_t dmin = -1;
        for (int i = 0; i < S->nthreads; i++) {
            Thr &t = S->t[i];
            if (t.state == T_BLOCKED && t.deadline >= 0) {
                if (t.deadline <= g_mono) {
                    if (t.bkind == B_COND)
                        count(C_COND_TIMEDOUT);
                    make_runnable(t, true);
                } else if (dmin < 0 || t.deadline < dmin) {
                    dmin = t.deadline;
                }
            }
        }

        int R[MAXT];
        int nR = 0;
        for (int i = 0; i < S->nthreads; i++)
            if (S->t[i].state == T_RUNNABLE || S->t[i].state == T_NEW)
                R[nR++] = i;

        if (nR == 0) {
            if (dmin < 0) {
                char buf[1500];
                describe_threads(buf, sizeof buf);
                fail_run(ST_SIMFAIL, "deadlock", "no runnable thread and no timer; %s", buf);
            }
            g_mono = dmin;
            count(C_TIME_JUMP_IDLE);
            record_choice(254);
            continue;
        }

        bool have_explicit = idx < S->cfg.choices.size();
        int chosen = -1;

        if (have_explicit) {
            uint8_t c = S->cfg.choices[idx];
            if (c == 255) {
                if (dmin >= 0) {
                    int64_t d = dmin - g_mono;
                    if (d > 20 * MS)
                        d = 20 * MS;
                    g_mono += d;
                    S->busy_adv_total += d;
                    for (int k = 0; k < nR; k++)
                        S->t[R[k]].starved_ns += d;
                    count(C_TIME_ADV_BUSY);
                    record_choice(255);
                    continue;
                }
            } else if (c >= 128 && c < 128 + MAXT) {
                Thr &w = S->t[c - 128];
                if (w.state == T_BLOCKED && (w.bkind == B_FUTEX || w.bkind == B_COND)) {
                    make_runnable(w, false);
                    count(C_SPURIOUS_WAKE);
                    record_choice(c);
                    continue;
                }
            } else if (c < MAXT) {
                for (int k = 0; k < nR; k++)
                    if (R[k] == c)
                        chosen = c;
            }
            if (chosen < 0) {
                if (S->cfg.strict_choices) {
                    char buf[1500];
                    describe_threads(buf, sizeof buf);
                    fail_run(ST_SIMFAIL, "diverged", "decision %u: recorded choice %u not available; %s",
                             idx, (unsigned)c, buf);
                }
                // fallback: keep running the current thread, else lowest id
                for (int k = 0; k < nR; k++)
                    if (R[k] == S->current)
                        chosen = S->current;
                if (chosen < 0)
                    chosen = R[0];
            }
        } else if (S->cfg.sticky_after) {
            // minimised replays: after the explicit prefix keep running the current thread
            for (int k = 0; k < nR; k++)
                if (R[k] == S->current)
                    chosen = S->current;
            if (chosen < 0)
                chosen = R[0];
        } else {
            // spurious wake-up (legal for futex and condition variables)
            if (S->cfg.spurious_pct > 0 && (int)S->rng.below(1000) < S->cfg.spurious_pct) {
                int cand[MAXT];
                int nc = 0;
                for (int i = 0; i < S->nthreads; i++)
                    if (S->t[i].state == T_BLOCKED
                        && (S->t[i].bkind == B_FUTEX || S->t[i].bkind == B_COND))
                        cand[nc++] = i;
                if (nc) {
                    int w = cand[S->rng.below(nc)];
                    make_runnable(S->t[w], false);
                    count(C_SPURIOUS_WAKE);
                    record_choice((uint8_t)(128 + w));
                    continue;
                }
            }
            // bounded time advance while something is runnable
            if (dmin >= 0 && S->cfg.time_adv_pct > 0
                && (int)S->rng.below(100) < S->cfg.time_adv_pct) {
                int64_t d = dmin - g_mono;
                if (d > 20 * MS)
                    d = 20 * MS;
                // Time that passes while threads are runnable models preemption delays, not work: in total
                // it stays below one second per run, so that it can reorder short sleeps and polls but can
                // never by itself expire a multi-second last-resort time-out against a thread that is
                // making progress (handlers that really take seconds say so with explicit sleeps)
                bool ok = S->busy_adv_total + d <= 1 * SEC;
                for (int k = 0; k < nR; k++)
                    if (S->t[R[k]].starved_ns + d > 500 * MS)
                        ok = false;
                if (ok) {
                    g_mono += d;
                    S->busy_adv_total += d;
                    for (int k = 0; k < nR; k++)
                        S->t[R[k]].starved_ns += d;
                    count(C_TIME_ADV_BUSY);
                    record_choice(255);
                    continue;
                }
            }
            // stall fault
            int Rs[MAXT];
            int nRs = 0;
            bool stalling = S->cfg.stall_tid >= 0 && idx >= S->cfg.stall_from
                    && idx < S->cfg.stall_from + S->cfg.stall_len;
            for (int k = 0; k < nR; k++)
                if (!(stalling && R[k] == S->cfg.stall_tid))
                    Rs[nRs++] = R[k];
            if (nRs == 0) {
                for (int k = 0; k < nR; k++)
                    Rs[nRs++] = R[k];
            } else if (nRs < nR) {
                count(C_STALL);
            }
            // fairness bound (i)
            uint32_t W = 32;
            if ((uint32_t)(4 * S->nthreads) > W)
                W = 4 * S->nthreads;
            int oldest = -1;
            uint32_t oldest_age = 0;
            for (int k = 0; k < nR; k++) {
                Thr &t = S->t[R[k]];
                uint32_t since = t.last_chosen > t.runnable_since ? t.last_chosen : t.runnable_since;
                uint32_t age = idx - since;
                if (age > W && age > oldest_age) {
                    oldest_age = age;
                    oldest = R[k];
                }
            }
            if (oldest >= 0) {
                chosen = oldest;
                count(C_FAIR_OVERRIDE);
            } else {
                bool cur_ok = false;
                for (int k = 0; k < nRs; k++)
                    if (Rs[k] == S->current)
                        cur_ok = true;
                switch (S->cfg.strategy) {
                case S_PCT: {
                    for (int k = 0; k < S->n_change; k++)
                        if (S->change_points[k] == idx && S->current >= 0)
                            S->t[S->current].prio = --S->low_prio;
                    int best = Rs[0];
                    for (int k = 1; k < nRs; k++)
                        if (S->t[Rs[k]].prio > S->t[best].prio)
                            best = Rs[k];
                    chosen = best;
                    break;
                }
                case S_RR: {
                    if (cur_ok && S->rr_left > 0) {
                        S->rr_left--;
                        chosen = S->current;
                    } else {
                        chosen = Rs[0];
                        for (int k = 0; k < nRs; k++)
                            if (Rs[k] > S->current) {
                                chosen = Rs[k];
                                break;
                            }
                        S->rr_left = (int)S->rng.range(0, 7);
                    }
                    break;
                }
                case S_STICKY:
                    if (cur_ok && S->rng.below(100) < 75)
                        chosen = S->current;
                    else
                        chosen = Rs[S->rng.below(nRs)];
                    break;
                default:
                    chosen = Rs[S->rng.below(nRs)];
                }
            }
        }

        Thr &c = S->t[chosen];
        c.last_chosen = idx;
        c.starved_ns = 0;
        record_choice((uint8_t)chosen);
        struct
        {
            int chosen, nR;
        } rec = { chosen, nR };
        g_hash = fnv1a(&rec, sizeof rec, g_hash);
        const char *tag = c.state == T_NEW ? "start" : (c.tag ? c.tag : "");
        g_hash = fnv1a(tag, strlen(tag), g_hash);
        g_proj = fnv1a(&chosen, sizeof chosen, g_proj);
        g_proj = fnv1a(tag, strlen(tag), g_proj);
        return chosen;
    }
}

// hand the baton to `next`; the caller either waits for its own turn or leaves
void handover(int self, int next, bool wait_self)
{
    if (next != self) {
        S->nsw++;
        S->current = next;
        Thr &n = S->t[next];
        if (n.state == T_NEW)
            n.state = T_RUNNABLE;
        n.go.store(1, std::memory_order_release);
        raw_futex_wake(&n.go, 1);
        if (wait_self) {
            Thr &me = S->t[self];
            while (me.go.load(std::memory_order_acquire) == 0)
                raw_futex_wait(&me.go, 0);
            me.go.store(0, std::memory_order_relaxed);
        }
    }
}

// the calling managed thread reached a parking point; its state has been set
void reschedule(const char *tag)
{
    int self = t_id;
    S->t[self].tag = tag;
    int next = pick();
    handover(self, next, true);
}

void block_on(int kind, const void *key, int64_t deadline, const char *tag)
{
    Thr &me = S->t[t_id];
    me.state = T_BLOCKED;
    me.bkind = kind;
    me.bkey = key;
    me.deadline = deadline;
    me.timed_out = false;
    me.block_seq = ++S->block_seq;
    reschedule(tag);
}

int wake_key(int kind, const void *key, int n)
{
    int woken = 0;
    while (woken < n) {
        int best = -1;
        for (int i = 0; i < S->nthreads; i++) {
            Thr &t = S->t[i];
            if (t.state == T_BLOCKED && t.bkind == kind && t.bkey == key
                && (best < 0 || t.block_seq < S->t[best].block_seq))
                best = i;
        }
        if (best < 0)
            break;
        make_runnable(S->t[best]);
        woken++;
    }
    return woken;
}

void wake_pollers()
{
    for (int i = 0; i < S->nthreads; i++)
        if (S->t[i].state == T_BLOCKED && S->t[i].bkind == B_POLL)
            make_runnable(S->t[i]);
}

struct Tramp
{
    void *(*start)(void *);
    void *arg;
    int id;
};

void *trampoline(void *p)
{
    Tramp tr = *(Tramp *)p;
    free(p);
    t_id = tr.id;
    Thr &me = S->t[tr.id];
    while (me.go.load(std::memory_order_acquire) == 0)
        raw_futex_wait(&me.go, 0);
    me.go.store(0, std::memory_order_relaxed);
    ev(EV_THREAD_START, tr.id);
    void *ret = tr.start(tr.arg);
    // finished: leave the scheduler
    ev(EV_THREAD_END, tr.id);
    me.state = T_FINISHED;
    me.tag = "finished";
    wake_key(B_JOIN, (const void *)(intptr_t)(tr.id + 1), MAXT);
    int self = tr.id;
    t_id = -1; // from here on: pass-through (thread-local destructors)
    int next = pick();
    handover(self, next, false);
    return ret;
}

int sim_mutex_lock(pthread_mutex_t *m)
{
    for (;;) {
        int r = real_pthread_mutex_trylock(m);
        if (r != EBUSY)
            return r;
        count(C_MUTEX_BLOCK);
        block_on(B_MUTEX, m, -1, "pthread_mutex_lock");
    }
}

int sim_mutex_unlock(pthread_mutex_t *m)
{
    int r = real_pthread_mutex_unlock(m);
    wake_key(B_MUTEX, m, MAXT);
    return r;
}

int sim_cond_wait(pthread_cond_t *c, pthread_mutex_t *m, int64_t deadline)
{
    count(C_COND_WAIT);
    Thr &me = S->t[t_id];
    me.state = T_BLOCKED;
    me.bkind = B_COND;
    me.bkey = c;
    me.deadline = deadline;
    me.timed_out = false;
    me.block_seq = ++S->block_seq;
    sim_mutex_unlock(m);
    reschedule("pthread_cond_wait");
    bool to = me.timed_out;
    sim_mutex_lock(m);
    return to ? ETIMEDOUT : 0;
}

int64_t abs_deadline(const struct timespec *ts, int clock_hint)
{
    int64_t v = (int64_t)ts->tv_sec * SEC + ts->tv_nsec;
    bool is_wall;
    if (clock_hint == CLOCK_REALTIME)
        is_wall = true;
    else if (clock_hint == CLOCK_MONOTONIC)
        is_wall = false;
    else
        is_wall = ts->tv_sec > 1000000000ll; // heuristic: simulated monotonic time starts at 1000 s
    if (is_wall)
        return g_mono + (v - wall_now());
    return v;
}

} // namespace

// A clock read is the one call every log call makes in the middle of its work (LogMessage samples
// the time): making it a decision point opens windows that have no blocking call in them.
static uint64_t g_clock_reads = 0;
static void clock_yield_point()
{
    if (!S || S->cfg.clock_yield_pct <= 0)
        return;
    uint64_t h = S->cfg.seed ^ (0xC10CC10CC10Cull + g_clock_reads++);
    if ((int)(splitmix64(h) % 100) >= S->cfg.clock_yield_pct)
        return;
    count(C_YIELD_CLOCK);
    reschedule("clock-read");
}

// File sinks read and write their files in the middle of rotations and compressions: a decision point after
// such a call lets another thread run between "data is in the buffer" and "data is used".  Only for
// descriptors of tracked log files (QFile uses plain read/write, no stdio lock is held around them).
static uint64_t g_io_calls = 0;
static void io_yield_point()
{
    if (!S || S->cfg.io_yield_pct <= 0)
        return;
    uint64_t h = S->cfg.seed ^ (0x10F11E5ull + g_io_calls++);
    if ((int)(splitmix64(h) % 100) >= S->cfg.io_yield_pct)
        return;
    count(C_YIELD_IO);
    reschedule("file-io");
}

// The library is compiled with -finstrument-functions: entering any of its functions (including the Qt
// container templates instantiated in it) can be a decision point.  This is the only way another thread gets
// to run inside a window that contains no synchronisation call, no clock read and no I/O - e.g. between two
// steps of an unsynchronised update of state that several pipelines share.  Off unless a plan asks for it.
static uint64_t g_instr_calls = 0;
static thread_local bool t_in_instr = false;
extern "C" __attribute__((no_instrument_function, used)) void __cyg_profile_func_enter(void *, void *)
{
    if (!S || S->cfg.instr_yield_pp10k <= 0 || t_in_instr)
        return;
    if (!managed())
        return;
    uint64_t h = S->cfg.seed ^ (0x1257A11EDull + g_instr_calls++);
    if ((int)(splitmix64(h) % 10000) >= S->cfg.instr_yield_pp10k)
        return;
    t_in_instr = true;
    count(C_YIELD_INSTR);
    reschedule("function-entry");
    t_in_instr = false;
}
extern "C" __attribute__((no_instrument_function, used)) void __cyg_profile_func_exit(void *, void *) { }

bool active()
{
    return g_active;
}
int self()
{
    return g_active ? t_id : -1;
}
int thread_count()
{
    return S ? S->nthreads : 0;
}
void set_thread_name(int tid, const char *name)
{
    if (S && tid >= 0 && tid < MAXT) {
        strncpy(S->t[tid].name, name, sizeof(S->t[tid].name) - 1);
        S->t[tid].name[sizeof(S->t[tid].name) - 1] = 0;
    }
}
const char *thread_name(int tid)
{
    return (S && tid >= 0 && tid < MAXT) ? S->t[tid].name : "?";
}

void begin(const SchedConfig &cfg)
{
    ENSURE_REAL();
    if (!S)
        S = new Sched();
    S->cfg = cfg;
    S->rng = Rng(cfg.seed ^ 0x5ced5ced5ced5cedull);
    S->nthreads = 1;
    S->current = 0;
    S->ndec = 0;
    S->nsw = 0;
    S->block_seq = 0;
    S->start_mono = g_mono;
    S->rr_left = 0;
    S->low_prio = 0;
    S->n_change = 0;
    S->busy_adv_total = 0;
    g_clock_reads = 0;
    g_io_calls = 0;
    if (cfg.strategy == S_PCT) {
        S->n_change = cfg.pct_depth > 8 ? 8 : cfg.pct_depth;
        for (int i = 0; i < S->n_change; i++)
            S->change_points[i] = (uint32_t)S->rng.below(600);
    }
    Thr &m = S->t[0];
    m.state = T_RUNNABLE;
    m.go.store(0);
    m.tag = "begin";
    m.prio = (int)S->rng.below(1000) + 1;
    m.real = pthread_self();
    strcpy(m.name, "main");
    t_id = 0;
    g_active = true;
    g_was_active = true;
}

void end()
{
    g_active = false;
    finalize_shm();
}

void yield(const char *tag)
{
    if (!managed())
        return;
    count(C_YIELD_HARNESS);
    reschedule(tag);
}

void hook_point(const char *tag)
{
    if (!managed())
        return;
    if (!tag_enabled(tag))
        return;
    count(C_YIELD_HOOK);
    reschedule(tag);
}

void sleep_ns(int64_t ns)
{
    if (!managed()) {
        return;
    }
    count(C_SLEEP);
    block_on(B_SLEEP, nullptr, g_mono + (ns > 0 ? ns : 0), "sleep");
}

void gate_wait(Gate *g)
{
    if (!managed())
        return;
    while (!g->open)
        block_on(B_GATE, g, -1, "gate");
}
void gate_open(Gate *g)
{
    g->open = 1;
    if (managed())
        wake_key(B_GATE, g, MAXT);
}

void fail_run(uint32_t status, const char *cls, const char *fmt, ...)
{
    if (g_shm) {
        g_shm->status = status;
        strncpy(g_shm->fail_class, cls, sizeof(g_shm->fail_class) - 1);
        va_list ap;
        va_start(ap, fmt);
        vsnprintf(g_shm->fail_msg, sizeof(g_shm->fail_msg), fmt, ap);
        va_end(ap);
        finalize_shm();
    }
    _exit(0);
}

void finish_run(uint32_t status)
{
    if (g_shm) {
        g_shm->status = status;
        finalize_shm();
    }
    _exit(0);
}

static void exit_marker()
{
    ev(EV_EXIT_DONE);
    finish_run(ST_EXITED);
}
void install_exit_marker()
{
    atexit(exit_marker);
}

void init_env()
{
    setenv("TZ", "UTC", 1);
    setenv("LC_ALL", "C.UTF-8", 1);
    setenv("LANG", "C.UTF-8", 1);
    setenv("QT_HASH_SEED", "0", 1);
    setenv("QT_NO_GLIB", "1", 1);
    setenv("QT_LOGGING_RULES", "", 1);
    unsetenv("QT_LOGGING_RULES");
    unsetenv("QT_LOGGING_CONF");
    unsetenv("QT_MESSAGE_PATTERN");
    unsetenv("QT_LOGGING_TO_CONSOLE");
    unsetenv("QT_FATAL_WARNINGS");
    unsetenv("QT_FATAL_CRITICALS");
    setenv("HOME", "/nonexistent", 1);
    setenv("XDG_CONFIG_HOME", "/nonexistent", 1);
    setenv("XDG_CONFIG_DIRS", "/nonexistent", 1);
    tzset();
}

// -------------------------------------------------------------- file layer --
namespace {
struct FsState
{
    bool armed = false;
    FsConfig cfg;
    Rng rng;
    int counts[FS_NCALLS] = { 0 };
    static constexpr int MAXFD = 1024;
    char *fdpath[MAXFD] = { nullptr };
    bool fault_fired = false;
    std::string sticky_dest; // absolute path that can no longer be created (whole-operation failure)
    int sticky_err = 0;
    int short_fd = -1, short_err = 0; // FS_ERR_SHORT_FIRST: the next write to this descriptor fails
};
FsState F;

const char *rel_path(const char *path)
{
    if (!F.armed || !path)
        return nullptr;
    size_t n = F.cfg.root.size();
    if (n && strncmp(path, F.cfg.root.c_str(), n) == 0 && path[n] == '/')
        return path + n + 1;
    if (n && strcmp(path, F.cfg.root.c_str()) == 0)
        return ""; // the directory itself (an O_TMPFILE open): writes through it are stamped too
    return nullptr;
}

bool fault_hits(int call, int *err, const char *dest = nullptr)
{
    int ord = F.counts[call]++;
    if (F.cfg.fault.call == call && F.cfg.fault.nth == ord && !F.fault_fired) {
        F.fault_fired = true;
        *err = F.cfg.fault.err & 0xffff;
        if ((F.cfg.fault.err & FS_ERR_STICKY) && dest) {
            F.sticky_dest = dest;
            F.sticky_err = *err;
        }
        count(C_FS_ERRNO_INJECTED);
        return true;
    }
    if (dest && !F.sticky_dest.empty() && F.sticky_dest == dest) {
        *err = F.sticky_err;
        count(C_FS_ERRNO_INJECTED);
        return true;
    }
    return false;
}

void boundary(int call, const char *what, const char *p1, const char *p2, int ordinal, bool before,
              const void *buf, size_t len, int fd, int err)
{
    count(C_FS_BOUNDARY);
    if (!before) {
        // names of temporary files (QTemporaryFile/QSaveFile: "<name>.XXXXXX" with six random
        // letters, seeded from the hardware RNG) must not enter the trace
        char a[280], b[280];
        auto norm = [](const char *p, char *out, size_t n) {
            snprintf(out, n, "%s", p ? p : "");
            size_t l = strlen(out);
            if (l > 7 && out[l - 7] == '.') {
                bool letters = true;
                for (size_t i = l - 6; i < l; i++)
                    if (!((out[i] >= 'a' && out[i] <= 'z') || (out[i] >= 'A' && out[i] <= 'Z')))
                        letters = false;
                if (letters)
                    memcpy(out + l - 6, "<tmp6>", 6);
            }
        };
        norm(p1, a, sizeof a);
        norm(p2, b, sizeof b);
        char tmp[600];
        int n = snprintf(tmp, sizeof tmp, "%s %s%s%s", what, a, p2 ? " > " : "", b);
        ev(EV_FS_OP, call, err, ordinal, tmp, (size_t)n);
    }
    if (F.cfg.on_boundary) {
        FsBoundary b { call, what, p1, p2, ordinal, before, buf, len, fd, err };
        F.cfg.on_boundary(b, F.cfg.ctx);
    }
}

void stamp_fd(int fd)
{
    int64_t w = wall_now();
    int64_t g = F.cfg.granularity_ns > 0 ? F.cfg.granularity_ns : 1;
    w = (w / g) * g;
    struct timespec ts[2];
    ts[0].tv_sec = 0;
    ts[0].tv_nsec = UTIME_OMIT;
    ts[1].tv_sec = w / SEC;
    ts[1].tv_nsec = w % SEC;
    futimens(fd, ts);
}
} // namespace

const char *fs_call_name(int c)
{
    static const char *n[] = { "open-create", "renameat2", "rename", "link", "unlink", "write", "open" };
    return (c >= 0 && c < FS_NCALLS) ? n[c] : "?";
}

void fs_arm(const FsConfig &cfg)
{
    ENSURE_REAL();
    F.cfg = cfg;
    F.rng = Rng(cfg.fault_seed ^ 0xf5f5f5f5ull);
    memset(F.counts, 0, sizeof F.counts);
    F.fault_fired = false;
    F.short_fd = -1;
    F.sticky_dest.clear();
    F.armed = true;
}
void fs_disarm()
{
    F.armed = false;
    for (int i = 0; i < FsState::MAXFD; i++)
        if (F.fdpath[i]) {
            free(F.fdpath[i]);
            F.fdpath[i] = nullptr;
        }
}
void fs_reset_counts()
{
    memset(F.counts, 0, sizeof F.counts);
}
void fs_begin_op(int op)
{
    // per-operation ordinals and a per-operation buggify stream: the pattern of short writes and EINTRs
    // inside operation k must not depend on what earlier operations (or the harness's own crash
    // evaluation between them) drew, or a write ordinal collected in one run names another write in the next
    memset(F.counts, 0, sizeof F.counts);
    F.rng = Rng(mix(F.cfg.fault_seed ^ 0xf5f5f5f5ull, (uint64_t)op + 1));
}
void fs_set_fault(const FsFault &f)
{
    F.cfg.fault = f;
    F.short_fd = -1;
    F.fault_fired = false;
    F.sticky_dest.clear();
}
bool fs_fault_fired()
{
    return F.fault_fired;
}
int fs_call_count(int call)
{
    return (call >= 0 && call < FS_NCALLS) ? F.counts[call] : 0;
}
void fs_stamp(const char *abs_path, int64_t wall_ns)
{
    struct timespec ts[2];
    ts[0].tv_sec = wall_ns / SEC;
    ts[0].tv_nsec = wall_ns % SEC;
    ts[1] = ts[0];
    utimensat(AT_FDCWD, abs_path, ts, 0);
}

static int g_fake_pid = 0;
void set_fake_pid(int pid)
{
    g_fake_pid = pid;
}

static int g_isatty1 = -1, g_isatty2 = -1;
void set_isatty(int a1, int a2)
{
    g_isatty1 = a1;
    g_isatty2 = a2;
}
static bool g_capture_syslog = false;

} // namespace sim

// ============================================================ interposers ====
using namespace sim;

extern "C" {

void qtlogger_verif_point(const char *tag)
{
    sim::hook_point(tag);
}

// ------------------------------------------------------------------ clocks --
int clock_gettime(clockid_t clk, struct timespec *ts)
{
    bool wall = (clk == CLOCK_REALTIME || clk == CLOCK_REALTIME_COARSE || clk == CLOCK_TAI);
    int64_t v = read_clock(wall);
    ts->tv_sec = v / SEC;
    ts->tv_nsec = v % SEC;
    return 0;
}

int gettimeofday(struct timeval *tv, void *)
{
    int64_t v = read_clock(true);
    if (tv) {
        tv->tv_sec = v / SEC;
        tv->tv_usec = (v % SEC) / 1000;
    }
    return 0;
}

time_t time(time_t *t)
{
    int64_t v = read_clock(true);
    time_t r = (time_t)(v / SEC);
    if (t)
        *t = r;
    return r;
}

// ------------------------------------------------------------------- futex --
long syscall(long number, ...)
{
    ENSURE_REAL();
    va_list ap;
    va_start(ap, number);
    long a1 = va_arg(ap, long), a2 = va_arg(ap, long), a3 = va_arg(ap, long), a4 = va_arg(ap, long),
         a5 = va_arg(ap, long), a6 = va_arg(ap, long);
    va_end(ap);
    if (number == SYS_futex && managed()) {
        int op = (int)a2 & ~(FUTEX_PRIVATE_FLAG | FUTEX_CLOCK_REALTIME);
        int *addr = (int *)a1;
        if (op == FUTEX_WAIT || op == FUTEX_WAIT_BITSET) {
            if (__atomic_load_n(addr, __ATOMIC_SEQ_CST) != (int)a3) {
                errno = EAGAIN;
                return -1;
            }
            int64_t deadline = -1;
            const struct timespec *ts = (const struct timespec *)a4;
            if (ts) {
                if (op == FUTEX_WAIT)
                    deadline = g_mono + (int64_t)ts->tv_sec * SEC + ts->tv_nsec;
                else
                    deadline = abs_deadline(ts, ((int)a2 & FUTEX_CLOCK_REALTIME) ? CLOCK_REALTIME : CLOCK_MONOTONIC);
            }
            count(C_FUTEX_WAIT);
            block_on(B_FUTEX, addr, deadline, "futex_wait");
            if (S->t[t_id].timed_out) {
                errno = ETIMEDOUT;
                return -1;
            }
            return 0;
        }
        if (op == FUTEX_WAKE || op == FUTEX_WAKE_BITSET) {
            count(C_FUTEX_WAKE);
            int n = (int)a3 < 0 ? MAXT : (int)a3;
            int w = wake_key(B_FUTEX, addr, n);
            raw_syscall6(SYS_futex, a1, a2, a3, a4, a5, a6);
            return w;
        }
    }
    long r = raw_syscall6(number, a1, a2, a3, a4, a5, a6);
    if (r < 0 && r > -4096) {
        errno = (int)-r;
        return -1;
    }
    return r;
}

// ----------------------------------------------------------------- threads --
int pthread_create(pthread_t *th, const pthread_attr_t *attr, void *(*start)(void *), void *arg)
{
    ENSURE_REAL();
    if (!managed())
        return real_pthread_create(th, attr, start, arg);
    if (S->nthreads >= MAXT)
        fail_run(ST_SIMFAIL, "machinery", "too many threads");
    int id = S->nthreads++;
    Thr &t = S->t[id];
    t.state = T_NEW;
    t.bkind = B_NONE;
    t.go.store(0);
    t.tag = "start";
    t.start = start;
    t.arg = arg;
    t.last_chosen = S->ndec;
    t.runnable_since = S->ndec;
    t.starved_ns = 0;
    t.prio = (int)S->rng.below(1000) + 1;
    snprintf(t.name, sizeof t.name, "t%d", id);
    Tramp *tr = (Tramp *)malloc(sizeof(Tramp));
    tr->start = start;
    tr->arg = arg;
    tr->id = id;
    count(C_THREADS_CREATED);
    int r = real_pthread_create(th, attr, trampoline, tr);
    if (r != 0) {
        S->nthreads--;
        free(tr);
        return r;
    }
    t.real = *th;
    reschedule("pthread_create");
    return 0;
}

int pthread_join(pthread_t th, void **ret)
{
    ENSURE_REAL();
    if (managed()) {
        int target = -1;
        for (int i = 0; i < S->nthreads; i++)
            if (S->t[i].state != T_UNUSED && i != t_id && pthread_equal(S->t[i].real, th))
                target = i;
        if (target >= 0) {
            while (S->t[target].state != T_FINISHED)
                block_on(B_JOIN, (const void *)(intptr_t)(target + 1), -1, "pthread_join");
        }
    }
    return real_pthread_join(th, ret);
}

int pthread_cancel(pthread_t th)
{
    ENSURE_REAL();
    if (managed()) {
        count(C_PTHREAD_CANCEL);
        ev(EV_PTHREAD_CANCEL);
        char buf[1500];
        describe_threads(buf, sizeof buf);
        fail_run(ST_SIMFAIL, "worker-terminated", "pthread_cancel called (QThread::terminate); %s", buf);
    }
    return real_pthread_cancel(th);
}

int pthread_mutex_lock(pthread_mutex_t *m)
{
    ENSURE_REAL();
    if (!managed())
        return real_pthread_mutex_lock(m);
    return sim_mutex_lock(m);
}

int pthread_mutex_unlock(pthread_mutex_t *m)
{
    ENSURE_REAL();
    if (!managed())
        return real_pthread_mutex_unlock(m);
    return sim_mutex_unlock(m);
}

int pthread_cond_wait(pthread_cond_t *c, pthread_mutex_t *m)
{
    ENSURE_REAL();
    if (!managed())
        return real_pthread_cond_wait(c, m);
    return sim_cond_wait(c, m, -1);
}

int pthread_cond_timedwait(pthread_cond_t *c, pthread_mutex_t *m, const struct timespec *ts)
{
    ENSURE_REAL();
    if (!managed())
        return real_pthread_cond_timedwait(c, m, ts);
    return sim_cond_wait(c, m, abs_deadline(ts, -1));
}

int pthread_cond_clockwait(pthread_cond_t *c, pthread_mutex_t *m, clockid_t clk, const struct timespec *ts)
{
    ENSURE_REAL();
    if (!managed())
        return real_pthread_cond_clockwait(c, m, clk, ts);
    return sim_cond_wait(c, m, abs_deadline(ts, clk == CLOCK_REALTIME ? CLOCK_REALTIME : CLOCK_MONOTONIC));
}

int pthread_cond_signal(pthread_cond_t *c)
{
    ENSURE_REAL();
    if (!managed())
        return real_pthread_cond_signal(c);
    wake_key(B_COND, c, 1);
    return 0;
}

int pthread_cond_broadcast(pthread_cond_t *c)
{
    ENSURE_REAL();
    if (!managed())
        return real_pthread_cond_broadcast(c);
    wake_key(B_COND, c, MAXT);
    return 0;
}

int sched_yield(void)
{
    ENSURE_REAL();
    if (!managed())
        return real_sched_yield();
    reschedule("sched_yield");
    return 0;
}

// ------------------------------------------------------------------ sleeps --
int nanosleep(const struct timespec *req, struct timespec *rem)
{
    ENSURE_REAL();
    if (!managed())
        return real_nanosleep(req, rem);
    count(C_SLEEP);
    block_on(B_SLEEP, nullptr, g_mono + (int64_t)req->tv_sec * SEC + req->tv_nsec, "nanosleep");
    if (rem) {
        rem->tv_sec = 0;
        rem->tv_nsec = 0;
    }
    return 0;
}

int clock_nanosleep(clockid_t clk, int flags, const struct timespec *req, struct timespec *rem)
{
    ENSURE_REAL();
    if (!managed())
        return real_clock_nanosleep(clk, flags, req, rem);
    int64_t d;
    if (flags & TIMER_ABSTIME)
        d = abs_deadline(req, clk == CLOCK_REALTIME ? CLOCK_REALTIME : CLOCK_MONOTONIC);
    else
        d = g_mono + (int64_t)req->tv_sec * SEC + req->tv_nsec;
    count(C_SLEEP);
    block_on(B_SLEEP, nullptr, d, "clock_nanosleep");
    if (rem) {
        rem->tv_sec = 0;
        rem->tv_nsec = 0;
    }
    return 0;
}

int usleep(useconds_t us)
{
    ENSURE_REAL();
    if (!managed())
        return real_usleep(us);
    count(C_SLEEP);
    block_on(B_SLEEP, nullptr, g_mono + (int64_t)us * US, "usleep");
    return 0;
}

// -------------------------------------------------------------------- poll --
int ppoll(struct pollfd *fds, nfds_t n, const struct timespec *tmo, const sigset_t *sigmask)
{
    ENSURE_REAL();
    if (!managed())
        return real_ppoll(fds, n, tmo, sigmask);
    struct timespec zero = { 0, 0 };
    int64_t deadline = tmo ? g_mono + (int64_t)tmo->tv_sec * SEC + tmo->tv_nsec : -1;
    for (;;) {
        int r = real_ppoll(fds, n, &zero, sigmask);
        if (r != 0)
            return r;
        if (deadline >= 0 && deadline <= g_mono)
            return 0;
        count(C_POLL_BLOCK);
        block_on(B_POLL, nullptr, deadline, "ppoll");
    }
}

int poll(struct pollfd *fds, nfds_t n, int timeout_ms)
{
    ENSURE_REAL();
    if (!managed())
        return real_poll(fds, n, timeout_ms);
    int64_t deadline = timeout_ms >= 0 ? g_mono + (int64_t)timeout_ms * MS : -1;
    for (;;) {
        int r = real_poll(fds, n, 0);
        if (r != 0)
            return r;
        if (deadline >= 0 && deadline <= g_mono)
            return 0;
        count(C_POLL_BLOCK);
        block_on(B_POLL, nullptr, deadline, "poll");
    }
}

int eventfd_write(int fd, eventfd_t v)
{
    ENSURE_REAL();
    int r = real_eventfd_write(fd, v);
    if (managed())
        wake_pollers();
    return r;
}

// ------------------------------------------------------------------- abort --
void abort(void)
{
    ENSURE_REAL();
    if (g_was_active && g_shm) {
        ev(EV_ABORT);
        finalize_shm();
        g_shm->status = ST_ABORT;
        _exit(134);
    }
    real_abort();
    _exit(134);
}

// -------------------------------------------------------------- file calls --
static int open_common(const char *path, int flags, mode_t mode, bool is64)
{
    const char *rel = rel_path(path);
    if (!rel)
        return is64 ? real_open64(path, flags, mode) : real_open(path, flags, mode);
    struct stat st;
    bool exists = ::stat(path, &st) == 0;
    bool creating = (flags & O_CREAT) && !exists;
    bool truncating = (flags & O_TRUNC) && exists && st.st_size > 0
            && ((flags & O_ACCMODE) == O_WRONLY || (flags & O_ACCMODE) == O_RDWR);
    int err = 0;
    count(C_FS_OPEN);
    int ord_any = F.counts[FS_OPEN_ANY];
    if (fault_hits(FS_OPEN_ANY, &err)) {
        boundary(FS_OPEN_ANY, "open", rel, nullptr, ord_any, false, nullptr, 0, -1, err);
        errno = err;
        return -1;
    }
    int ord = F.counts[FS_OPEN_CREATE];
    if (creating && fault_hits(FS_OPEN_CREATE, &err, path)) {
        boundary(FS_OPEN_CREATE, "open-create", rel, nullptr, ord, false, nullptr, 0, -1, err);
        errno = err;
        return -1;
    }
    int fd = is64 ? real_open64(path, flags, mode) : real_open(path, flags, mode);
    if (fd >= 0 && fd < FsState::MAXFD) {
        free(F.fdpath[fd]);
        F.fdpath[fd] = strdup(rel);
        if (creating || truncating) {
            stamp_fd(fd);
            boundary(creating ? FS_OPEN_CREATE : FS_OPEN_ANY, creating ? "open-create" : "open-trunc", rel,
                     nullptr, creating ? ord : ord_any, false, nullptr, 0, fd, 0);
        }
    }
    return fd;
}

int open64(const char *path, int flags, ...)
{
    ENSURE_REAL();
    mode_t mode = 0;
    if (flags & (O_CREAT | O_TMPFILE)) {
        va_list ap;
        va_start(ap, flags);
        mode = va_arg(ap, mode_t);
        va_end(ap);
    }
    return open_common(path, flags, mode, true);
}

int open(const char *path, int flags, ...)
{
    ENSURE_REAL();
    mode_t mode = 0;
    if (flags & (O_CREAT | O_TMPFILE)) {
        va_list ap;
        va_start(ap, flags);
        mode = va_arg(ap, mode_t);
        va_end(ap);
    }
    return open_common(path, flags, mode, false);
}

int close(int fd)
{
    ENSURE_REAL();
    if (F.armed && fd >= 0 && fd < FsState::MAXFD && F.fdpath[fd]) {
        free(F.fdpath[fd]);
        F.fdpath[fd] = nullptr;
    }
    return real_close(fd);
}

ssize_t write(int fd, const void *buf, size_t n)
{
    ENSURE_REAL();
    ssize_t r;
    if (F.armed && fd >= 0 && fd < FsState::MAXFD && F.fdpath[fd]) {
        const char *rel = F.fdpath[fd];
        int err = 0;
        int ord = F.counts[FS_WRITE];
        count(C_FS_WRITE);
        if (F.cfg.fail_write_errno && F.cfg.fail_write_path == rel) {
            count(C_FS_WRITE_REFUSED);
            errno = F.cfg.fail_write_errno;
            return -1;
        }
        if (F.short_fd == fd) {
            // the continuation of a write that was cut short: the device is full now
            F.short_fd = -1;
            F.counts[FS_WRITE]++;
            count(C_FS_ERRNO_INJECTED);
            boundary(FS_WRITE, "write", rel, nullptr, ord, false, buf, 0, fd, F.short_err);
            errno = F.short_err;
            return -1;
        }
        bool cut_short = false;
        if (fault_hits(FS_WRITE, &err)) {
            if ((F.cfg.fault.err & FS_ERR_SHORT_FIRST) && n > 1) {
                cut_short = true;
                F.short_fd = fd;
                F.short_err = err;
            } else {
                boundary(FS_WRITE, "write", rel, nullptr, ord, false, buf, 0, fd, err);
                errno = err;
                return -1;
            }
        }
        if (!cut_short && F.cfg.eintr_pct > 0 && (int)F.rng.below(100) < F.cfg.eintr_pct) {
            count(C_FS_EINTR);
            errno = EINTR;
            return -1;
        }
        size_t len = n;
        if (cut_short) {
            len = n / 2;
            count(C_FS_SHORT_WRITE);
        } else if (F.cfg.short_write_pct > 0 && n > 1 && (int)F.rng.below(100) < F.cfg.short_write_pct) {
            len = 1 + (size_t)F.rng.below(n - 1);
            count(C_FS_SHORT_WRITE);
        }
        boundary(FS_WRITE, "write", rel, nullptr, ord, true, buf, len, fd, 0);
        r = real_write(fd, buf, len);
        if (r >= 0) {
            stamp_fd(fd);
            if (F.cfg.record_writes)
                ev(EV_FS_WRITE, fd, r, ord, rel, strlen(rel));
            boundary(FS_WRITE, "write", rel, nullptr, ord, false, buf, (size_t)r, fd, 0);
        }
        if (managed())
            io_yield_point();
    } else {
        r = real_write(fd, buf, n);
    }
    if (managed())
        wake_pollers();
    return r;
}

ssize_t read(int fd, void *buf, size_t n)
{
    ENSURE_REAL();
    ssize_t r = real_read(fd, buf, n);
    if (F.armed && fd >= 0 && fd < FsState::MAXFD && F.fdpath[fd] && managed())
        io_yield_point();
    return r;
}

int renameat2(int ofd, const char *oldp, int nfd, const char *newp, unsigned int flags)
{
    ENSURE_REAL();
    const char *r1 = rel_path(oldp), *r2 = rel_path(newp);
    if (!r1 && !r2)
        return real_renameat2(ofd, oldp, nfd, newp, flags);
    int err = 0, ord = F.counts[FS_RENAMEAT2];
    count(C_FS_RENAME);
    if (fault_hits(FS_RENAMEAT2, &err, newp)) {
        boundary(FS_RENAMEAT2, "renameat2", r1, r2, ord, false, nullptr, 0, -1, err);
        errno = err;
        return -1;
    }
    int r = real_renameat2(ofd, oldp, nfd, newp, flags);
    int e = r == 0 ? 0 : errno;
    boundary(FS_RENAMEAT2, "renameat2", r1, r2, ord, false, nullptr, 0, -1, e);
    errno = e;
    return r;
}

int rename(const char *oldp, const char *newp)
{
    ENSURE_REAL();
    const char *r1 = rel_path(oldp), *r2 = rel_path(newp);
    if (!r1 && !r2)
        return real_rename(oldp, newp);
    int err = 0, ord = F.counts[FS_RENAME];
    count(C_FS_RENAME);
    if (fault_hits(FS_RENAME, &err, newp)) {
        boundary(FS_RENAME, "rename", r1, r2, ord, false, nullptr, 0, -1, err);
        errno = err;
        return -1;
    }
    int r = real_rename(oldp, newp);
    int e = r == 0 ? 0 : errno;
    boundary(FS_RENAME, "rename", r1, r2, ord, false, nullptr, 0, -1, e);
    errno = e;
    return r;
}

int link(const char *oldp, const char *newp)
{
    ENSURE_REAL();
    const char *r1 = rel_path(oldp), *r2 = rel_path(newp);
    if (!r1 && !r2)
        return real_link(oldp, newp);
    int err = 0, ord = F.counts[FS_LINK];
    count(C_FS_LINK);
    if (fault_hits(FS_LINK, &err, newp)) {
        boundary(FS_LINK, "link", r1, r2, ord, false, nullptr, 0, -1, err);
        errno = err;
        return -1;
    }
    int r = real_link(oldp, newp);
    int e = r == 0 ? 0 : errno;
    boundary(FS_LINK, "link", r1, r2, ord, false, nullptr, 0, -1, e);
    errno = e;
    return r;
}

int linkat(int ofd, const char *oldp, int nfd, const char *newp, int flags)
{
    ENSURE_REAL();
    const char *r1 = rel_path(oldp), *r2 = rel_path(newp);
    if (!r1 && !r2)
        return real_linkat(ofd, oldp, nfd, newp, flags);
    int err = 0, ord = F.counts[FS_LINK];
    count(C_FS_LINK);
    if (fault_hits(FS_LINK, &err, newp)) {
        boundary(FS_LINK, "linkat", r1, r2, ord, false, nullptr, 0, -1, err);
        errno = err;
        return -1;
    }
    int r = real_linkat(ofd, oldp, nfd, newp, flags);
    int e = r == 0 ? 0 : errno;
    boundary(FS_LINK, "linkat", r1, r2, ord, false, nullptr, 0, -1, e);
    errno = e;
    return r;
}

int unlink(const char *p)
{
    ENSURE_REAL();
    const char *r1 = rel_path(p);
    if (!r1)
        return real_unlink(p);
    int err = 0, ord = F.counts[FS_UNLINK];
    count(C_FS_UNLINK);
    if (fault_hits(FS_UNLINK, &err)) {
        boundary(FS_UNLINK, "unlink", r1, nullptr, ord, false, nullptr, 0, -1, err);
        errno = err;
        return -1;
    }
    int r = real_unlink(p);
    int e = r == 0 ? 0 : errno;
    boundary(FS_UNLINK, "unlink", r1, nullptr, ord, false, nullptr, 0, -1, e);
    errno = e;
    return r;
}

int ftruncate64(int fd, off64_t len)
{
    ENSURE_REAL();
    int r = real_ftruncate64(fd, len);
    if (F.armed && fd >= 0 && fd < FsState::MAXFD && F.fdpath[fd] && r == 0) {
        count(C_FS_TRUNC);
        stamp_fd(fd);
        boundary(-1, "ftruncate", F.fdpath[fd], nullptr, 0, false, nullptr, 0, fd, 0);
    }
    return r;
}

int ftruncate(int fd, off_t len)
{
    return ftruncate64(fd, (off64_t)len);
}

pid_t getpid(void)
{
    ENSURE_REAL();
    if (g_fake_pid > 0)
        return (pid_t)g_fake_pid;
    return real_getpid();
}

// ---------------------------------------------------------- tty and syslog --
int isatty(int fd)
{
    ENSURE_REAL();
    if (fd == 1 && g_isatty1 >= 0) {
        ev(EV_ISATTY, 1, g_isatty1);
        return g_isatty1;
    }
    if (fd == 2 && g_isatty2 >= 0) {
        ev(EV_ISATTY, 2, g_isatty2);
        return g_isatty2;
    }
    return real_isatty(fd);
}

void openlog(const char *ident, int option, int facility)
{
    (void)option;
    (void)facility;
    ev(EV_OPENLOG, option, facility, 0, ident, ident ? strlen(ident) : 0);
}

void closelog(void) { }

void syslog(int prio, const char *fmt, ...)
{
    char buf[8192];
    va_list ap;
    va_start(ap, fmt);
    int n = vsnprintf(buf, sizeof buf, fmt, ap);
    va_end(ap);
    if (n < 0)
        n = 0;
    if ((size_t)n >= sizeof buf)
        n = sizeof buf - 1;
    ev(EV_SYSLOG, prio, 0, 0, buf, (size_t)n);
}

void __syslog_chk(int prio, int flag, const char *fmt, ...)
{
    (void)flag;
    char buf[8192];
    va_list ap;
    va_start(ap, fmt);
    int n = vsnprintf(buf, sizeof buf, fmt, ap);
    va_end(ap);
    if (n < 0)
        n = 0;
    if ((size_t)n >= sizeof buf)
        n = sizeof buf - 1;
    ev(EV_SYSLOG, prio, 0, 0, buf, (size_t)n);
}

} // extern "C"

namespace sim {
// fsim: make every clock read advance time even without the scheduler
void clock_tick_always(bool on)
{
    g_clock_tick = on;
}
} // namespace sim
