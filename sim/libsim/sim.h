// libsim - deterministic simulation runtime for the qtlogger checks.
//
// Linked INTO the executable: the extern "C" definitions in sim.cpp pre-empt
// libc's for every PLT call made by Qt, libstdc++ and qtlogger (DESIGN.md 1.2).
#pragma once

#include <cstdint>
#include <cstddef>
#include <string>
#include <vector>

namespace sim {

// ---------------------------------------------------------------- PRNG ----
inline uint64_t splitmix64(uint64_t &s)
{
    uint64_t z = (s += 0x9E3779B97F4A7C15ull);
    z = (z ^ (z >> 30)) * 0xBF58476D1CE4E5B9ull;
    z = (z ^ (z >> 27)) * 0x94D049BB133111EBull;
    return z ^ (z >> 31);
}

struct Rng
{
    uint64_t s = 1;
    Rng() = default;
    explicit Rng(uint64_t seed) : s(seed) { }
    uint64_t next() { return splitmix64(s); }
    // uniform in [0, n)
    uint64_t below(uint64_t n) { return n ? next() % n : 0; }
    // uniform in [lo, hi]
    int64_t range(int64_t lo, int64_t hi) { return lo + (int64_t)below((uint64_t)(hi - lo + 1)); }
    bool chance(uint32_t num, uint32_t den) { return below(den) < num; }
};

inline uint64_t mix(uint64_t a, uint64_t b)
{
    uint64_t s = a ^ (b + 0x9E3779B97F4A7C15ull + (a << 6) + (a >> 2));
    return splitmix64(s);
}

// ------------------------------------------------------- shared memory ----
// One region per worker process, inherited by every forked run; the child
// writes, the parent reads after the child is gone (also after abort()).

enum : uint32_t {
    ST_RUNNING = 0,
    ST_DONE = 1, // harness reached its end and called finish()
    ST_SIMFAIL = 2, // scheduler ended the run: deadlock / cap / divergence
    ST_ABORT = 3, // abort() was called (qFatal)
    ST_EXITED = 4, // exit() path ran to completion (atexit marker)
};

constexpr uint32_t MAX_EVENTS = 1u << 17;
constexpr uint32_t POOL_BYTES = 24u << 20;
constexpr uint32_t MAX_CHOICES = 1u << 16;
constexpr uint32_t N_COUNTERS = 96;

struct Event
{
    uint32_t seq;
    int16_t tid;
    uint16_t kind;
    int64_t a, b, c;
    uint32_t s_off, s_len;
};

struct Shm
{
    uint32_t status;
    char fail_class[48];
    char fail_msg[2048];
    uint64_t trace_hash;
    uint32_t ndecisions;
    uint32_t nswitches;
    int64_t sim_ns_end;
    uint32_t counters[N_COUNTERS];
    uint32_t nevents;
    uint32_t events_dropped;
    uint32_t pool_used;
    uint32_t nchoices;
    uint64_t proj_hash; // hash of (thread, tag) projection: "distinct interleavings" measure
    uint8_t choices[MAX_CHOICES];
    Event events[MAX_EVENTS];
    char pool[POOL_BYTES];
};

Shm *shm_create(); // MAP_SHARED|MAP_ANONYMOUS
void shm_attach(Shm *s); // make it current (child and parent share the pointer)
void shm_reset();
Shm *shm();

// counters (fault fired / reach probes) - indices shared by all engines
enum Counter : uint32_t {
    C_FUTEX_WAIT = 0,
    C_FUTEX_WAKE,
    C_COND_WAIT,
    C_COND_TIMEDOUT,
    C_MUTEX_BLOCK,
    C_POLL_BLOCK,
    C_SLEEP,
    C_SPURIOUS_WAKE,
    C_STALL,
    C_TIME_JUMP_IDLE, // clock jumped to next timer with nothing runnable
    C_TIME_ADV_BUSY, // bounded advance while something runnable
    C_CLOCK_JUMP, // wall-clock jump fault
    C_THREADS_CREATED,
    C_PTHREAD_CANCEL,
    C_YIELD_HOOK, // /repo hook yields taken
    C_YIELD_HARNESS,
    C_FAIR_OVERRIDE,
    C_FS_OPEN,
    C_FS_WRITE,
    C_FS_RENAME,
    C_FS_LINK,
    C_FS_UNLINK,
    C_FS_TRUNC,
    C_FS_ERRNO_INJECTED,
    C_FS_SHORT_WRITE,
    C_FS_EINTR,
    C_FS_BOUNDARY,
    C_YIELD_CLOCK,
    C_FS_WRITE_REFUSED,
    C_YIELD_IO,
    C_YIELD_INSTR,
    C_USER0 = 32, // harness specific probes from here
};
void count(uint32_t c, uint32_t n = 1);

// ---------------------------------------------------------------- clock ----
constexpr int64_t NS = 1, US = 1000, MS = 1000000, SEC = 1000000000ll;
constexpr int64_t DAY = 86400 * SEC;

void clock_set(int64_t wall_epoch_ns, int64_t mono_ns); // absolute reset
int64_t mono_now(); // does not advance
int64_t wall_now(); // does not advance
void clock_advance(int64_t ns); // explicit advance (fsim history op / harness)
void wall_jump(int64_t ns); // clock-jump fault: wall offset only
// values handed out to the calling managed thread since clock_reads_begin()
void clock_reads_begin();
struct ClockReads
{
    int n_wall = 0, n_mono = 0;
    int64_t wall[24];
    int64_t mono[24];
};
const ClockReads &clock_reads();
void clock_tick_always(bool on);
struct ClockState
{
    int64_t mono, epoch, mono0, off;
};
ClockState clock_save();
void clock_restore(const ClockState &s); // fsim: every clock read advances time by 1 us

// ------------------------------------------------------------ scheduler ----
enum Strategy : int { S_RANDOM = 0, S_PCT = 1, S_RR = 2, S_STICKY = 3 };

struct SchedConfig
{
    uint64_t seed = 1;
    int strategy = S_RANDOM;
    int pct_depth = 2;
    uint32_t max_decisions = 20000;
    int64_t max_sim_ns = 120 * SEC;
    std::vector<uint8_t> choices; // explicit prefix of choices (replay / minimisation)
    bool strict_choices = false; // divergence = failure
    bool sticky_after = false; // after the explicit choices: keep running the current thread (no PRNG)
    uint64_t yield_mask_seed = 0; // which yield tags are enabled: hash(tag,seed) % 100 < yield_pct
    int yield_pct = 100;
    int spurious_pct = 0; // per decision chance (in 1/1000) of a spurious wake-up
    int time_adv_pct = 20; // per decision chance (%) of a bounded time advance while busy
    int clock_yield_pct = 0; // chance (%) that a clock read by a managed thread is a decision point
    int io_yield_pct = 0; // chance (%) that a read/write of a tracked log file is followed by a decision point
    int instr_yield_pp10k = 0; // chance (per 10000) that entering a function of the (instrumented) library is a decision point
    // stall fault: thread `stall_tid` is not chosen in decisions [stall_from, stall_from+stall_len)
    int stall_tid = -1;
    uint32_t stall_from = 0, stall_len = 0;
};

void begin(const SchedConfig &cfg); // calling thread becomes logical thread 0
void end(); // back to pass-through
bool active();
int self(); // logical id, -1 if unmanaged
void yield(const char *tag); // harness yield point (always a decision point when active)
void hook_point(const char *tag); // /repo hook: decision point iff tag enabled in this run
void sleep_ns(int64_t ns); // simulated sleep of the calling thread
int thread_count();
// name a thread for traces ("main", "worker", "p0"...); by logical id
void set_thread_name(int tid, const char *name);
// called by harness when it sees the worker thread for the first time etc.
const char *thread_name(int tid);

// simulated gate (harness "stuck sink"): wait blocks in the scheduler until opened
struct Gate
{
    int open = 0;
};
void gate_wait(Gate *g);
void gate_open(Gate *g);

// end the run from inside (harness detected an in-run invariant failure, or scheduler failure)
[[noreturn]] void fail_run(uint32_t status, const char *cls, const char *fmt, ...);
[[noreturn]] void finish_run(uint32_t status); // normal end: records hash, _exit(0)

// --------------------------------------------------------------- events ----
void ev(uint16_t kind, int64_t a = 0, int64_t b = 0, int64_t c = 0, const char *s = nullptr,
        size_t slen = 0);
inline void ev(uint16_t kind, int64_t a, int64_t b, int64_t c, const std::string &s)
{
    ev(kind, a, b, c, s.data(), s.size());
}
std::string ev_str(const Shm *s, const Event &e);
void trace_reset(); // new run in the same process (fsim)
uint64_t trace_hash_now();

// ------------------------------------------------------------ file layer ----
struct FsFault
{
    // fail the n-th (0-based) call of `call` seen since fs_arm with `err`; -1 = none
    int call = -1; // FS_* below
    int nth = 0;
    int err = 0; // errno; | FS_ERR_STICKY: every later call that would create the same destination fails too
};
constexpr int FS_ERR_STICKY = 0x10000;
constexpr int FS_ERR_SHORT_FIRST = 0x20000; // FS_WRITE: the chosen write transfers half of its bytes, the next write to that descriptor fails with err
enum FsCall : int { FS_OPEN_CREATE = 0, FS_RENAMEAT2, FS_RENAME, FS_LINK, FS_UNLINK, FS_WRITE, FS_OPEN_ANY, FS_NCALLS };
const char *fs_call_name(int c);

struct FsBoundary
{
    int call; // FsCall (or -1 for close/trunc)
    const char *what; // "write", "open-create", "rename", ...
    const char *path; // relative to root (first path)
    const char *path2; // second path or null
    int ordinal; // ordinal of this call kind since fs_arm
    bool before; // true: about to happen (write only: torn variants); false: done
    const void *buf; // write payload
    size_t len;
    int fd;
    int result_errno; // 0 ok
};
typedef void (*FsBoundaryFn)(const FsBoundary &b, void *ctx);

struct FsConfig
{
    std::string root; // absolute directory; only paths below it are tracked
    int64_t granularity_ns = 1 * MS; // mtime rounding
    FsFault fault;
    int short_write_pct = 0; // buggify: chance (%) that a tracked write is cut short
    int eintr_pct = 0; // buggify: chance (%) that a tracked write first returns EINTR
    uint64_t fault_seed = 1;
    FsBoundaryFn on_boundary = nullptr;
    void *ctx = nullptr;
    bool record_writes = false; // emit EV_FS_WRITE events (thread attribution)
    std::string fail_write_path; // relative path: every write to it fails with fail_write_errno ("disk full")
    int fail_write_errno = 0;
};
void fs_arm(const FsConfig &cfg);
void fs_disarm();
int fs_call_count(int call);
void fs_reset_counts(); // per-operation ordinals (fsim attaches faults to operations)
void fs_begin_op(int op); // fs_reset_counts + buggify stream re-derived from (fault_seed, op)
void fs_set_fault(const FsFault &f); // replaces the armed fault (and re-arms it)
bool fs_fault_fired();
// mtime helper for harness-created files (foreign files, materialised snapshots)
void fs_stamp(const char *abs_path, int64_t wall_ns);

// reserved event kinds used by libsim itself
enum : uint16_t {
    EV_FS_WRITE = 1, // a=fd b=len c=ordinal s=relative path
    EV_FS_OP = 2, // a=FsCall b=errno c=ordinal s=path[>path2]
    EV_ABORT = 3,
    EV_PTHREAD_CANCEL = 4,
    EV_THREAD_START = 5, // a=new tid
    EV_THREAD_END = 6,
    EV_EXIT_DONE = 7,
    EV_ISATTY = 8,
    EV_SYSLOG = 9, // a=priority s=text
    EV_OPENLOG = 10, // s=ident
    EV_USER = 32,
};

// isatty answers (C19); -1 = pass through
void set_isatty(int fd1_answer, int fd2_answer);

// getpid() answers this value while > 0 (a process id written into a log line must not differ between two
// executions of one plan); 0 = the real pid
void set_fake_pid(int pid);

// environment normalisation; call first thing in main()
void init_env();

// install an atexit marker that records EV_EXIT_DONE + hash and _exit(0)s; must be
// registered before the objects whose destructors it should run after.
void install_exit_marker();

uint64_t fnv1a(const void *p, size_t n, uint64_t h = 0xcbf29ce484222325ull);

} // namespace sim

extern "C" void qtlogger_verif_point(const char *tag);
