// Reference semantics shared by the tsim oracles (DESIGN 3.1): the sequential
// pipeline evaluator, hand-written verdicts of the menu filters and outputs of
// the menu patterns, the pretty format with a wildcard thread field.
#pragma once

#include <algorithm>
#include <cstdio>
#include <cstring>
#include <map>
#include <string>
#include <vector>

#include "plan.h"

namespace tsim {
namespace model {

inline bool starts_with(const std::string &s, const char *p);

inline const char *type_name(int t)
{
    switch (t) {
    case 0:
        return "debug";
    case 1:
        return "warning";
    case 2:
        return "critical";
    case 3:
        return "fatal";
    case 4:
        return "info";
    }
    return "debug";
}
inline int priority(int t)
{
    switch (t) {
    case 0:
        return 0;
    case 4:
        return 1;
    case 1:
        return 2;
    case 2:
        return 3;
    case 3:
        return 4;
    }
    return -1;
}

// hand-written verdicts of the menu entries (no regex engine in the oracle)
inline bool regex_verdict(int idx, const std::string &text)
{
    switch (idx % kNumRegex) {
    case 0:
        return !text.empty() && text.back() == 'a';
    case 1: {
        // ^m[0-9]+\.[0-9]+ [a-g]
        size_t i = 0;
        if (text.empty() || text[i] != 'm')
            return false;
        i++;
        size_t d0 = i;
        while (i < text.size() && isdigit((unsigned char)text[i]))
            i++;
        if (i == d0 || i >= text.size() || text[i] != '.')
            return false;
        i++;
        d0 = i;
        while (i < text.size() && isdigit((unsigned char)text[i]))
            i++;
        if (i == d0 || i + 1 >= text.size() || text[i] != ' ')
            return false;
        char c = text[i + 1];
        return c >= 'a' && c <= 'g';
    }
    case 2:
        return text.find("xx") != std::string::npos;
    default:
        return true;
    }
}
inline bool starts_with(const std::string &s, const char *p)
{
    return s.compare(0, strlen(p), p) == 0;
}
inline bool cat_verdict(int idx, const std::string &cat, int type)
{
    switch (idx % kNumCatRules) {
    case 0:
        return !starts_with(cat, "app.");
    case 1:
        return type != 0;
    case 2:
        return cat != "app.net";
    case 3:
        return !((cat == "lib" && type == 1) || (cat == "app.net" && type == 4));
    default:
        return cat == "default" || (cat == "a+b" && type == 2);
    }
}

inline std::string time_string(long long ms)
{
    long long secs = ms >= 0 ? ms / 1000 : -((-ms + 999) / 1000);
    long long days = secs >= 0 ? secs / 86400 : -((-secs + 86399) / 86400);
    long long rem = secs - days * 86400;
    // civil from days (Howard Hinnant)
    long long z = days + 719468;
    long long era = (z >= 0 ? z : z - 146096) / 146097;
    unsigned doe = (unsigned)(z - era * 146097);
    unsigned yoe = (doe - doe / 1460 + doe / 36524 - doe / 146096) / 365;
    long long y = (long long)yoe + era * 400;
    unsigned doy = doe - (365 * yoe + yoe / 4 - yoe / 100);
    unsigned mp = (5 * doy + 2) / 153;
    unsigned d = doy - (153 * mp + 2) / 5 + 1;
    unsigned m = mp < 10 ? mp + 3 : mp - 9;
    if (m <= 2)
        y++;
    char buf[64];
    snprintf(buf, sizeof buf, "%02u.%02u.%04lld %02lld:%02lld:%02lld", d, m, y, rem / 3600, (rem / 60) % 60,
             rem % 60);
    return buf;
}

struct Msg
{
    int cid;
    int type, line;
    std::string file, function, category, message;
    long long time_ms;
    bool formatted = false;
    std::string fmt;
    std::map<std::string, std::string> attrs;
    const std::string &current() const { return formatted ? fmt : message; }
};

struct PrettyState
{
    int cat_width = 0;
};
struct MState
{
    std::map<int, int> seq;
    std::map<int, std::string> dup_last;
    std::map<int, PrettyState> pretty;
};

struct Delivery
{
    int sink;
    int cid;
    std::string text; // formatted text or raw message ('\x02' = pretty thread field)
    bool formatted;
    std::string attrs;
    int pretty_node = -1; // the pretty formatter whose thread field is in text (if any)
};

inline std::string attrs_string(const std::map<std::string, std::string> &a)
{
    std::string s;
    bool first = true;
    for (auto &kv : a) {
        if (!first)
            s += '\x1e';
        first = false;
        s += kv.first + "=" + kv.second;
    }
    return s;
}

struct Model
{
    MState st;
    std::vector<Delivery> out;
    int last_pretty = -1;

    bool eval(const Node &n, Msg &m)
    {
        const std::string &k = n.kind;
        if (k == "pipe") {
            bool scoped = n.a != 0;
            bool sf = m.formatted;
            std::string sfmt = m.fmt;
            auto sattrs = m.attrs;
            int slp = last_pretty;
            for (auto &kid : n.kids)
                if (!eval(kid, m))
                    break;
            if (scoped) {
                m.formatted = sf;
                m.fmt = sfmt;
                m.attrs = sattrs;
                last_pretty = slp;
            }
            return true;
        }
        if (k == "seq") {
            m.attrs[n.a == 0 ? "seq" : "seq2"] = std::to_string(st.seq[n.a]++);
            return true;
        }
        if (k == "level")
            return priority(m.type) >= priority(n.a);
        if (k == "dup") {
            std::string &last = st.dup_last[n.id];
            if (m.message == last)
                return false;
            last = m.message;
            return true;
        }
        if (k == "regex")
            return regex_verdict(n.a, m.message);
        if (k == "cat")
            return cat_verdict(n.a, m.category, m.type);
        if (k == "pretty") {
            static const char letters[] = { ' ', 'W', 'E', 'F', 'I', 'S' };
            PrettyState &ps = st.pretty[n.id];
            std::string r = time_string(m.time_ms) + " " + letters[m.type] + " " + "\x02";
            bool def = m.category == "default";
            int catlen = def ? 0 : (int)m.category.size() + 3;
            if (!def)
                r += "[" + m.category + "] ";
            if (n.a > 0) {
                if (catlen > ps.cat_width)
                    ps.cat_width = std::min(catlen, n.a);
                int sp = ps.cat_width - catlen;
                if (sp > 0)
                    r += std::string(sp, ' ');
            }
            r += m.message;
            m.fmt = r;
            m.formatted = true;
            last_pretty = n.id;
            return true;
        }
        if (k == "pattern") {
            std::string r;
            switch (n.a % kNumPatterns) {
            case 0:
                r = m.message;
                break;
            case 1:
                r = std::string("[") + type_name(m.type) + "] " + m.message;
                break;
            case 2:
                r = m.category + "|" + std::to_string(m.line) + "|" + m.message;
                break;
            case 3:
                r = m.file + ":" + std::to_string(m.line) + " " + m.function + " - " + m.message;
                break;
            case 4: {
                auto it = m.attrs.find("seq");
                r = "<" + (it == m.attrs.end() ? std::string() : it->second) + "> " + m.message + "%";
                break;
            }
            case 5: {
                std::string t = type_name(m.type);
                if (t.size() < 8)
                    t = std::string(8 - t.size(), ' ') + t;
                r = t + ":" + m.message;
                break;
            }
            default:
                r = m.type == 1 ? "W: " + m.message : std::string();
            }
            m.fmt = r;
            m.formatted = true;
            last_pretty = -1;
            return true;
        }
        if (k == "fnattr") {
            m.attrs["k" + std::to_string(n.a)] = std::to_string(n.b);
            return true;
        }
        if (k == "fnfilter")
            return ((m.cid & 0xffff) % (n.a + 2)) != 0;
        if (k == "fnfmt") {
            m.fmt = "F" + std::to_string(n.id) + "<" + m.current() + ">";
            m.formatted = true;
            return true;
        }
        if (k == "rec") {
            Delivery d;
            d.sink = n.a;
            d.cid = m.cid;
            d.text = m.current();
            d.formatted = m.formatted;
            d.attrs = attrs_string(m.attrs);
            d.pretty_node = (m.formatted && d.text.find('\x02') != std::string::npos) ? last_pretty : -1;
            out.push_back(d);
            return true;
        }
        return true; // yielder, gate
    }
};

// match `actual` against `expected` where '\x02' stands for the thread field of
// the pretty formatter; returns the field found (first placeholder) in *field
inline bool match_with_field(const std::string &exp, size_t ei, const std::string &act, size_t ai, std::string *field)
{
    while (ei < exp.size()) {
        if (exp[ei] == '\x02') {
            // alternatives: nothing, 3..5 spaces, T<digits><space>
            std::vector<std::string> alts = { "" };
            {
                size_t n = 0;
                while (ai + n < act.size() && act[ai + n] == ' ' && n < 5)
                    n++;
                for (size_t k = 3; k <= n; k++)
                    alts.push_back(std::string(k, ' '));
            }
            if (ai < act.size() && act[ai] == 'T') {
                size_t j = ai + 1;
                while (j < act.size() && isdigit((unsigned char)act[j]))
                    j++;
                if (j > ai + 1 && j < act.size() && act[j] == ' ')
                    alts.push_back(act.substr(ai, j + 1 - ai));
            }
            for (auto it = alts.rbegin(); it != alts.rend(); ++it) {
                std::string f;
                if (match_with_field(exp, ei + 1, act, ai + it->size(), &f)) {
                    if (field)
                        *field = *it;
                    return true;
                }
            }
            return false;
        }
        if (ai >= act.size() || act[ai] != exp[ei])
            return false;
        ei++;
        ai++;
    }
    return ai == act.size();
}

// Relaxed comparison for texts produced by the pretty formatter: its layout (time, type letter, thread
// tag, category, alignment) is not laid down by any property, so everything between the text that
// precedes the '\x02' marker and the message text that follows the header is accepted. *header
// receives what stood there; the thread tag "T<n> " is extracted from it if present.
inline bool match_pretty_relaxed(const std::string &exp, const std::string &act, std::string *tag)
{
    size_t mark = exp.find('\x02');
    if (mark == std::string::npos)
        return exp == act;
    // expected = pre + time/letter (fixed part before the marker belongs to the header too) ...
    // find where the header starts: the reference header begins 22 characters before the marker
    // ("dd.MM.yyyy hh:mm:ss X "); everything before that is outer text (e.g. "F7<")
    size_t hstart = mark >= 22 ? mark - 22 : 0;
    std::string pre = exp.substr(0, hstart);
    // after the marker the reference has "[cat] " + padding + message + outer suffix: the message
    // text is what must be found; take the part after the category/padding
    std::string rest = exp.substr(mark + 1);
    if (!rest.empty() && rest[0] == '[') {
        size_t close = rest.find("] ");
        if (close != std::string::npos)
            rest = rest.substr(close + 2);
    }
    size_t sp = 0;
    while (sp < rest.size() && rest[sp] == ' ' && sp < 15)
        sp++;
    std::string tail_min = rest.substr(sp); // message + suffix, leading padding dropped (it may be part of the message: try both)
    auto try_tail = [&](const std::string &tail) {
        if (act.size() < pre.size() + tail.size())
            return false;
        if (act.compare(0, pre.size(), pre) != 0)
            return false;
        if (act.compare(act.size() - tail.size(), tail.size(), tail) != 0)
            return false;
        std::string header = act.substr(pre.size(), act.size() - pre.size() - tail.size());
        if (tag) {
            *tag = "0";
            for (size_t i = 0; i + 2 < header.size(); i++)
                if (header[i] == 'T' && isdigit((unsigned char)header[i + 1]) && (i == 0 || header[i - 1] == ' ')) {
                    size_t j = i + 1;
                    while (j < header.size() && isdigit((unsigned char)header[j]))
                        j++;
                    if (j < header.size() && header[j] == ' ') {
                        *tag = header.substr(i, j - i);
                        break;
                    }
                }
        }
        return true;
    };
    return try_tail(rest) || try_tail(tail_min);
}

inline std::string clip(const std::string &s, size_t n = 160)
{
    std::string o;
    for (char c : s.substr(0, n)) {
        if (c == '\x1f')
            o += '|';
        else if (c == '\x1e')
            o += ',';
        else if (c == '\x02')
            o += "<T?>";
        else if ((unsigned char)c < 32)
            o += '?';
        else
            o += c;
    }
    if (s.size() > n)
        o += "...";
    return o;
}


} // namespace model
} // namespace tsim
