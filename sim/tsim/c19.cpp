// C19: configuration front-ends, end to end (filled in later).
#include "events.h"
#include "harness.h"
#include "oracle.h"

namespace tsim {

Plan gen_C19(sim::Rng &, Plan p, bool)
{
    return p;
}
void run_child_c19(const Plan &, const std::string &)
{
    sim::finish_run(sim::ST_DONE);
}
Verdict judge_c19(const Plan &, const sim::Shm *, const ChildExit &, const std::string &, Verdict v)
{
    return v;
}

} // namespace tsim
