// C19: configuration front-ends, end to end (DESIGN 4 C19).
//
// Three run families, chosen by the plan:
//   ini      - an INI file generated from a subset of the documented keys, loaded with
//              configureFromIniFile / configure(QSettings, group)
//   oneline  - gQtLogger.configure(path, size, count, options, async)
//   handlers - histories of installMessageHandler / restorePreviousMessageHandler /
//              foreign qInstallMessageHandler calls, probed with a marker message after each step
//
// The child redirects descriptors 1 and 2 to files, answers isatty() per plan, records
// syslog() calls and write(2) calls on the log files (with the logical thread that made
// them), and logs a generated stream from 1-4 threads under the scheduler.  The parent
// reads everything back and compares with the documented semantics of the keys.
#include <fcntl.h>
#include <set>
#include <sstream>
#include <unistd.h>

#include <QDir>
#include <QFile>
#include <QSettings>

#include "events.h"
#include "harness.h"
#include "harness_int.h"
#include "logdir.h"
#include "model.h"
#include "oracle.h"

using namespace QtLogger;

namespace tsim {

// ===================================================================== generator ====
namespace {

Op mkop19(const char *k, int a = 0, int b = 0, int c = 0, int d = 0, const std::string &s = std::string())
{
    Op o;
    o.kind = k;
    o.a = a;
    o.b = b;
    o.c = c;
    o.d = d;
    o.s = s;
    return o;
}

const char *const kPayloads19[] = { "alpha", "beta", "gamma xx", "delta  spaced", "UPPER a", "zeta",
                                    "eta %d %s {x}", "iota \xc3\xbc\xc3\xb1\xc3\xaf", "a", "xx end a",
                                    "hl \033[1mbold\033[0m and \033[38;5;208morange\033[0m a",
                                    // control sequences that are not colour codes: they belong to the text
                                    "prog \033[2K[##  ] 50% \033[1A 3 items remain a" };

Op gen_log19(sim::Rng &r, bool big_ok)
{
    static const int types[] = { 0, 4, 1, 2 };
    int type = types[r.below(4)];
    int cat = r.chance(2, 5) ? 0 : (int)r.below(kNumCategories);
    int file = 1 + (int)r.below(kNumFiles - 1);
    int func = 1 + (int)r.below(kNumFunctions - 1);
    Op o = mkop19("log", type, cat, file | (func << 8), (int)r.below(2000), kPayloads19[r.below(12)]);
    if (big_ok && r.chance(1, 6))
        o.e = (int)r.range(40, 300);
    return o;
}

// tri-state key: 0 absent, 1 true, 2 false
int tri(sim::Rng &r, int p_absent, int p_true)
{
    int x = (int)r.below(100);
    if (x < p_absent)
        return 0;
    return x < p_absent + p_true ? 1 : 2;
}

} // namespace

Plan gen_C19(sim::Rng &r, Plan p, bool thorough)
{
    p.target = "logger";
    p.poison = true;
    p.root = Node();
    p.root.kind = "pipe";
    int f = (int)r.below(10);
    std::string family = f < 2 ? "handlers" : (f < 7 ? "ini" : "oneline");
    QJsonObject cfg;
    cfg["family"] = QString::fromStdString(family);

    if (family == "handlers") {
        p.app = false;
        int n = (int)r.range(2, thorough ? 14 : 9);
        for (int i = 0; i < n; i++) {
            int x = (int)r.below(10);
            if (x < 4)
                p.main_ops.push_back(mkop19("install"));
            else if (x < 7)
                p.main_ops.push_back(mkop19("restore"));
            else if (x < 9)
                p.main_ops.push_back(mkop19("foreign", (int)r.below(3)));
            else
                p.main_ops.push_back(mkop19("scratch")); // another Logger object, never installed, created and destroyed
        }
        p.cfg = cfg;
        p.sched_seed = r.next();
        p.strategy = 0;
        return p;
    }

    bool async = false;
    bool has_path = false;
    int limit_size = 0;
    if (family == "ini") {
        QJsonObject k;
        if (r.chance(1, 2))
            k["filter_rules"] = (int)r.below(kNumCatRules);
        if (r.chance(1, 3))
            k["regexp_filter"] = (int)r.below(3);
        if (r.chance(1, 2))
            k["message_pattern"] = (int)r.below(kNumPatterns);
        static const char *cons[] = { "stdout", "stdout_color", "stderr", "stderr_color" };
        for (auto c : cons) {
            int t = tri(r, 50, 35);
            if (t)
                k[c] = t == 1;
        }
        int pl = tri(r, 40, 20);
        if (pl)
            k["platform_std_log"] = pl == 1;
        if (r.chance(1, 3))
            k["syslog_ident"] = r.chance(1, 2) ? "myapp" : "qtl-verif";
        if (r.chance(3, 5)) {
            has_path = true;
            k["path"] = true;
            static const int sizes[] = { -1, -1, 0, 150, 400, 5000 };
            int sz = sizes[r.below(6)];
            if (sz >= 0)
                k["max_file_size"] = sz;
            limit_size = sz < 0 ? 1048576 : sz;
            static const int counts[] = { -2, -2, 0, 1, 2, 3, 50 };
            int cn = counts[r.below(7)];
            if (cn > -2)
                k["max_file_count"] = cn;
            int t = tri(r, 40, 30);
            if (t)
                k["rotate_on_startup"] = t == 1;
            t = tri(r, 60, 25);
            if (t)
                k["rotate_daily"] = t == 1;
            t = tri(r, 50, 30);
            if (t)
                k["compress_old_files"] = t == 1;
        }
        int a = tri(r, 40, 35);
        if (a)
            k["async"] = a == 1;
        async = a == 1;
        cfg["keys"] = k;
        cfg["group"] = r.chance(3, 4) ? "logger" : "mylog";
        cfg["via_settings_object"] = r.chance(1, 3);
    } else {
        QJsonObject o;
        has_path = r.chance(7, 10);
        o["path"] = has_path;
        static const int sizes[] = { 0, 0, 200, 1000, 100000 };
        static const int counts[] = { 0, 0, 1, 2, 3, 5, -1 };
        int sz = sizes[r.below(5)];
        o["size"] = sz;
        limit_size = sz;
        o["count"] = counts[r.below(7)];
        o["options"] = (int)r.below(8);
        async = r.chance(1, 2);
        o["async"] = async;
        cfg["oneline"] = o;
    }
    cfg["tty1"] = (int)r.below(2);
    cfg["tty2"] = (int)r.below(2);
    cfg["preexisting"] = (has_path && r.chance(1, 3)) ? (int)r.range(1, 300) : 0;
    cfg["pre_age_days"] = r.chance(1, 2) ? 0 : (int)r.range(1, 4); // the old content is from an earlier day
    cfg["logger"] = r.chance(1, 2) ? "singleton" : "heap";
    p.app = async ? r.chance(5, 6) : r.chance(1, 2);
    std::string stop = "none";
    if (async)
        stop = (p.app && r.chance(1, 2)) ? "exec_quit" : "reset";
    cfg["stop"] = QString::fromStdString(stop);
    p.cfg = cfg;

    bool big_ok = has_path && limit_size > 0 && limit_size < 10000;
    int np = (int)r.range(0, 3);
    for (int i = 0; i < np; i++) {
        std::vector<Op> ops;
        int n = r.chance(1, 8) ? (int)r.range(7, 14) : (int)r.range(1, 6);
        for (int k = 0; k < n; k++) {
            if (r.chance(1, 4))
                ops.push_back(r.chance(1, 2) ? mkop19("yield") : mkop19("sleep", (int)r.range(1, 8000)));
            ops.push_back(gen_log19(r, big_ok));
        }
        p.producers.push_back(ops);
    }
    int n0 = (int)r.range(np ? 0 : 1, 6);
    int cut = n0 ? (int)r.below(n0 + 1) : 0;
    for (int i = 0; i < cut; i++)
        p.main_ops.push_back(gen_log19(r, big_ok));
    for (int i = 0; i < np; i++)
        p.main_ops.push_back(mkop19("spawn", i + 1));
    for (int i = cut; i < n0; i++)
        p.main_ops.push_back(gen_log19(r, big_ok));
    p.main_ops.push_back(mkop19("join", -1));
    if (stop == "exec_quit")
        p.main_ops.push_back(mkop19("exec_quit"));
    else if (stop == "reset")
        p.main_ops.push_back(mkop19("reset"));
    if (r.chance(1, 4))
        p.main_ops.push_back(gen_log19(r, false)); // after the stop: synchronous

    p.sched_seed = r.next();
    p.strategy = (int)r.below(4);
    p.pct_depth = (int)r.range(1, 3);
    static const int yp[] = { 100, 100, 60, 30, 10 };
    p.yield_pct = yp[r.below(5)];
    static const int ta[] = { 0, 10, 20, 40 };
    p.time_adv_pct = ta[r.below(4)];
    p.spurious_pm = 0;
    static const int cy[] = { 0, 0, 10, 30, 100 };
    p.clock_yield_pct = cy[r.below(5)];
    return p;
}

// ========================================================================= child ====
namespace {

// foreign handlers of the install/restore histories
int probe_step(const QString &msg)
{
    // "probe <n>"
    if (!msg.startsWith(QLatin1String("probe ")))
        return -1;
    return msg.mid(6).toInt();
}
void foreign0(QtMsgType, const QMessageLogContext &, const QString &m)
{
    sim::ev(E_ACTIVE, probe_step(m), 0);
}
void foreign1(QtMsgType, const QMessageLogContext &, const QString &m)
{
    sim::ev(E_ACTIVE, probe_step(m), 1);
}
void foreign2(QtMsgType, const QMessageLogContext &, const QString &m)
{
    sim::ev(E_ACTIVE, probe_step(m), 2);
}
const QtMessageHandler kForeign[] = { foreign0, foreign1, foreign2 };

[[noreturn]] void run_handlers(const Plan &P)
{
    Logger *logger = new Logger();
    logger->append(FunctionHandlerPtr::create([](LogMessage &lm) {
        sim::ev(E_ACTIVE, probe_step(lm.message()), 100);
        return true;
    }));
    sim::SchedConfig sc = sched_config(P);
    sim::begin(sc);
    auto probe = [](int step) {
        QByteArray t = "probe " + QByteArray::number(step);
        sim::ev(E_OP_BEGIN, step);
        QMessageLogger("h.cpp", step, "void h()", "default").info("%s", t.constData());
        sim::ev(E_OP_END, step);
    };
    probe(0);
    for (size_t i = 0; i < P.main_ops.size(); i++) {
        const Op &op = P.main_ops[i];
        if (op.kind == "install")
            logger->installMessageHandler();
        else if (op.kind == "restore")
            Logger::restorePreviousMessageHandler();
        else if (op.kind == "foreign")
            qInstallMessageHandler(kForeign[op.a % 3]);
        else if (op.kind == "scratch") {
            Logger *other = new Logger;
            delete other;
        }
        probe((int)i + 1);
    }
    sim::end();
    sim::finish_run(sim::ST_DONE);
}

void write_ini(const Plan &P, const QString &iniPath, const QString &logPath)
{
    QJsonObject k = P.cfg["keys"].toObject();
    QString group = P.cfg["group"].toString();
    QSettings s(iniPath, QSettings::IniFormat);
    s.beginGroup(group);
    for (auto it = k.begin(); it != k.end(); ++it) {
        const QString key = it.key();
        if (key == "filter_rules")
            s.setValue(key, QString::fromUtf8(kCatRuleMenu[it.value().toInt() % kNumCatRules]));
        else if (key == "regexp_filter")
            s.setValue(key, QString::fromUtf8(kRegexMenu[it.value().toInt() % kNumRegex]));
        else if (key == "message_pattern")
            s.setValue(key, QString::fromUtf8(kPatternMenu[it.value().toInt() % kNumPatterns]));
        else if (key == "path")
            s.setValue(key, logPath);
        else if (key == "syslog_ident")
            s.setValue(key, it.value().toString());
        else if (it.value().isBool())
            s.setValue(key, it.value().toBool());
        else
            s.setValue(key, it.value().toInt());
    }
    s.endGroup();
    s.sync();
}

} // namespace

void run_child_c19(const Plan &P, const std::string &rundir)
{
    C = new Ctx();
    C->plan = &P;
    C->rundir = rundir;
    for (int i = 0; i < 64; i++)
        C->producer_tid[i] = -1;
    alarm(20);
    sim::set_fake_pid(4242);
    sim::clock_set(1767225600ll * sim::SEC + 12 * 3600 * sim::SEC, 1000 * sim::SEC);

    std::string family = P.cfg["family"].toString().toStdString();
    {
        int fd = ::open((rundir + "/stderr.txt").c_str(), O_WRONLY | O_CREAT | O_TRUNC | O_APPEND, 0644);
        if (fd >= 0) {
            dup2(fd, 2);
            ::close(fd);
        }
        fd = ::open((rundir + "/stdout.txt").c_str(), O_WRONLY | O_CREAT | O_TRUNC | O_APPEND, 0644);
        if (fd >= 0) {
            dup2(fd, 1);
            ::close(fd);
        }
    }
    if (family == "handlers")
        run_handlers(P);

    sim::set_isatty(P.cfg["tty1"].toInt(), P.cfg["tty2"].toInt());
    if (P.app) {
        static int argc = 1;
        static char a0[] = "tsim";
        static char *argv[] = { a0, nullptr };
        C->app = new QCoreApplication(argc, argv);
        C->quit_connected = true; // the configuration starts the logger thread under this application object
        install_quit_begin_marker();
    }
    QDir().mkpath(QString::fromStdString(rundir) + "/logs");
    QDir().mkpath(QString::fromStdString(rundir) + "/cfg");
    QString logPath = QString::fromStdString(rundir) + "/logs/app.log";
    int pre = P.cfg["preexisting"].toInt();
    if (pre > 0) {
        QFile f(logPath);
        if (f.open(QIODevice::WriteOnly)) {
            QByteArray line = "pre-existing line\n";
            QByteArray data;
            while (data.size() < pre)
                data += line;
            f.write(data);
            f.close();
            // written an hour before the run began, by the virtual clock
            sim::fs_stamp(logPath.toLocal8Bit().constData(),
                          sim::wall_now() - 3600 * sim::SEC - (int64_t)P.cfg["pre_age_days"].toInt() * sim::DAY);
        }
    }

    sim::FsConfig fc;
    fc.root = rundir + "/logs";
    fc.granularity_ns = sim::MS;
    fc.record_writes = true;
    sim::fs_arm(fc);

    bool singleton = P.cfg["logger"].toString() == "singleton";
    Logger *logger = singleton ? Logger::instance() : new Logger();
    C->logger = logger;
    C->oth = logger;
    C->singleton = singleton;

    QString iniPath = QString::fromStdString(rundir) + "/cfg/logging.ini";
    if (family == "ini")
        write_ini(P, iniPath, logPath);

    sim::SchedConfig sc = sched_config(P);
    sim::begin(sc);
    C->producer_tid[0] = 0;
    note_thread();

    int before = sim::thread_count();
    sim::ev(E_OP_BEGIN, -1);
    if (family == "ini") {
        QString group = P.cfg["group"].toString();
        if (P.cfg["via_settings_object"].toBool()) {
            QSettings s(iniPath, QSettings::IniFormat);
            logger->configure(s, group);
        } else if (group == "logger" && P.seed % 2 == 0) {
            logger->configureFromIniFile(iniPath);
        } else {
            logger->configureFromIniFile(iniPath, group);
        }
    } else {
        QJsonObject o = P.cfg["oneline"].toObject();
        logger->configure(o["path"].toBool() ? logPath : QString(), o["size"].toInt(), o["count"].toInt(),
                          RotatingFileSink::Options(o["options"].toInt()), o["async"].toBool());
    }
    if (sim::thread_count() > before) {
        sim::set_thread_name(before, "worker");
        if (before < 64)
            C->is_worker[before] = true;
        sim::ev(E_WORKER_TID, before);
    }
    sim::ev(E_ASYNC_STATE, logger->ownThreadIsRunning() ? 1 : 0);
    sim::ev(E_OP_END, -1);

    run_ops(0, P.main_ops);

    // make the file sinks' buffered tail visible (public API), then leave without destructors
    sim::ev(E_NOTE, 0, 0, 0, "final-flush", 11);
    logger->flush();
    sim::end();
    sim::finish_run(sim::ST_DONE);
}

// ======================================================================== oracle ====
namespace {

using namespace model;

void fail19(Verdict &v, const std::string &cls, const std::string &msg, const std::string &sig = std::string())
{
    if (!v.ok)
        return;
    v.ok = false;
    v.cls = cls;
    v.msg = msg;
    v.signature = sig.empty() ? cls : sig;
}

std::string expected_text19(int producer, int opidx, const Op &op)
{
    std::string t = "m" + std::to_string(producer) + "." + std::to_string(opidx) + " " + op.s;
    if (op.e > 0) {
        t += ' ';
        std::string pad(op.e, 'p');
        for (int i = 0; i < op.e; i += 64)
            pad[i] = char('A' + (i / 64) % 26);
        t += pad;
    }
    return t;
}

// the harness's own scanner for ANSI SGR sequences: ESC [ digits and ';' m
std::string strip_ansi(const std::string &s, int *nseq = nullptr)
{
    std::string o;
    size_t i = 0;
    int n = 0;
    while (i < s.size()) {
        if (s[i] == '\033' && i + 1 < s.size() && s[i + 1] == '[') {
            size_t j = i + 2;
            while (j < s.size() && (isdigit((unsigned char)s[j]) || s[j] == ';'))
                j++;
            if (j < s.size() && s[j] == 'm') {
                i = j + 1;
                n++;
                continue;
            }
        }
        o += s[i++];
    }
    if (nseq)
        *nseq = n;
    return o;
}

const char *color_prefix(int type)
{
    switch (type) {
    case 0:
        return "\033[90m";
    case 4:
        return "\033[32m";
    case 1:
        return "\033[33m";
    case 2:
        return "\033[31m";
    case 3:
        return "\033[1;91m";
    }
    return "";
}

struct Call19
{
    int cid = -1, producer = 0, opidx = 0;
    const Op *op = nullptr;
    std::string text; // as logged (may itself contain colour sequences)
    std::string plain; // text with colour sequences removed
    int own_seq = 0; // colour sequences that are part of the message
    long invoke = -1, ret = -1;
    std::vector<long long> wall;
    bool passes = true;
};

struct Cfg19
{
    bool ini = false;
    int rules = -1, regex = -1, pattern = -1;
    int pretty_width = 0; // pretty formatter's alignment width (one-line: 15)
    bool embedded_colour = false; // one-line: the formatter itself colours
    int n_stdout = 0, n_stderr = 0, n_platform = 0;
    bool stdout_colour = false, stderr_colour = false;
    bool syslog = false;
    std::string ident;
    bool file = false;
    int L = 0, N = 0;
    bool startup = false, daily = false, compress = false;
    bool rotating = true;
    bool async = false;
    int tty1 = 0, tty2 = 0, pre = 0;
};

Cfg19 read_cfg(const Plan &plan)
{
    Cfg19 c;
    c.tty1 = plan.cfg["tty1"].toInt();
    c.tty2 = plan.cfg["tty2"].toInt();
    c.pre = plan.cfg["preexisting"].toInt();
    if (plan.cfg["family"].toString() == "ini") {
        c.ini = true;
        QJsonObject k = plan.cfg["keys"].toObject();
        auto b = [&](const char *key, bool def) { return k.contains(key) ? k[key].toBool() : def; };
        if (k.contains("filter_rules"))
            c.rules = k["filter_rules"].toInt();
        if (k.contains("regexp_filter"))
            c.regex = k["regexp_filter"].toInt();
        if (k.contains("message_pattern"))
            c.pattern = k["message_pattern"].toInt();
        bool so = b("stdout", false), soc = b("stdout_color", false);
        bool se = b("stderr", false), sec = b("stderr_color", false);
        c.n_stdout = (so || soc) ? 1 : 0;
        c.stdout_colour = soc && c.tty1;
        c.n_stderr = (se || sec) ? 1 : 0;
        c.stderr_colour = sec && c.tty2;
        c.n_platform = b("platform_std_log", true) ? 1 : 0;
        if (k.contains("syslog_ident")) {
            c.syslog = true;
            c.ident = k["syslog_ident"].toString().toStdString();
        }
        if (k.contains("path")) {
            c.file = true;
            c.L = k.contains("max_file_size") ? k["max_file_size"].toInt() : 1048576;
            c.N = k.contains("max_file_count") ? k["max_file_count"].toInt() : 5;
            c.startup = b("rotate_on_startup", true);
            c.daily = b("rotate_daily", false);
            c.compress = b("compress_old_files", false);
            c.rotating = true;
        }
        c.async = b("async", false);
    } else {
        QJsonObject o = plan.cfg["oneline"].toObject();
        c.pretty_width = 15;
        c.embedded_colour = true;
        c.n_platform = 1;
        c.file = o["path"].toBool();
        c.L = o["size"].toInt();
        c.N = o["count"].toInt();
        int opt = o["options"].toInt();
        c.startup = opt & 1;
        c.daily = opt & 2;
        c.compress = opt & 4;
        c.rotating = c.L > 0 || c.startup || c.daily;
        c.async = o["async"].toBool();
    }
    return c;
}

std::vector<std::string> file_lines(const std::string &path)
{
    std::string raw;
    logdir::read_file(path, raw);
    return logdir::split_lines(raw);
}

// which of the plan's messages does this (colour-stripped) line carry?
int map_line(const std::string &ln, const std::map<int, Call19> &calls)
{
    for (size_t k = 0; k + 3 < ln.size(); k++) {
        if (ln[k] != 'm' || !isdigit((unsigned char)ln[k + 1]))
            continue;
        size_t j = k + 1;
        int p = 0, i = 0;
        while (j < ln.size() && isdigit((unsigned char)ln[j]))
            p = p * 10 + (ln[j++] - '0');
        if (j >= ln.size() || ln[j] != '.')
            continue;
        j++;
        size_t j0 = j;
        while (j < ln.size() && isdigit((unsigned char)ln[j]))
            i = i * 10 + (ln[j++] - '0');
        if (j == j0 || j >= ln.size() || ln[j] != ' ')
            continue;
        auto it = calls.find(call_id(p, i));
        if (it != calls.end() && ln.compare(k, it->second.plain.size(), it->second.plain) == 0)
            return it->first;
    }
    return -1;
}

struct Line
{
    std::string raw, plain;
    int cid = -1;
    int nseq = 0;
};

std::vector<Line> classify(const std::vector<std::string> &raw, const std::map<int, Call19> &calls)
{
    std::vector<Line> out;
    for (auto &r : raw) {
        Line l;
        l.raw = r;
        l.plain = strip_ansi(r, &l.nseq);
        l.cid = map_line(l.plain, calls);
        out.push_back(l);
    }
    return out;
}

std::string mname(const Call19 &c)
{
    return clip(c.text, 40);
}

// The formatted text every output must carry for a message, evaluated by the reference model
// in the order the output itself shows (stateful formatters depend on arrival order).
struct Formatter19
{
    Model model;
    Node root;
    explicit Formatter19(const Cfg19 &cfg)
    {
        root.kind = "pipe";
        root.a = 0;
        Node f;
        if (cfg.pattern >= 0) {
            f.kind = "pattern";
            f.a = cfg.pattern;
        } else {
            f.kind = "pretty";
            f.a = cfg.pretty_width;
            pretty = true;
        }
        f.id = 1;
        Node r;
        r.kind = "rec";
        r.a = 0;
        r.id = 2;
        root.kids.push_back(f);
        root.kids.push_back(r);
    }
    bool pretty = false; // no message_pattern key / one-line configuration: the default pretty format
    // expected texts, one per candidate timestamp of the call
    bool matches(const Call19 &c, const std::string &observed, bool commit)
    {
        if (pretty) {
            // The keys say nothing about the layout of the default format (time, type letter, thread
            // tag, category alignment): only that the message is there. The line must end with the
            // message text; that every output carries the same line is checked across outputs.
            return observed.size() >= c.plain.size()
                    && observed.compare(observed.size() - c.plain.size(), c.plain.size(), c.plain) == 0;
        }
        std::vector<long long> cand;
        for (long long w : c.wall) {
            long long ms = w / 1000000;
            bool dup = false;
            for (long long x : cand)
                if (x / 1000 == ms / 1000)
                    dup = true;
            if (!dup)
                cand.push_back(ms);
        }
        if (cand.empty())
            cand.push_back(0);
        MState saved = model.st;
        bool ok = false;
        MState after = saved;
        for (long long ms : cand) {
            model.st = saved;
            model.out.clear();
            Msg m;
            m.cid = c.cid;
            m.type = c.op->a;
            m.line = c.cid + 1;
            const char *xf = kFiles[(c.op->c & 0xff) % kNumFiles];
            const char *xfn = kFunctions[((c.op->c >> 8) & 0xff) % kNumFunctions];
            m.file = xf ? xf : "";
            m.function = xfn ? xfn : "";
            m.category = kCategories[c.op->b % kNumCategories];
            m.message = c.text;
            m.time_ms = ms;
            model.eval(root, m);
            after = model.st;
            if (!model.out.empty() && match_with_field(strip_ansi(model.out[0].text), 0, observed, 0, nullptr)) {
                ok = true;
                break;
            }
        }
        model.st = commit ? after : saved;
        model.out.clear();
        return ok;
    }
    std::string example(const Call19 &c)
    {
        MState saved = model.st;
        model.out.clear();
        Msg m;
        m.cid = c.cid;
        m.type = c.op->a;
        m.line = c.cid + 1;
        const char *xf = kFiles[(c.op->c & 0xff) % kNumFiles];
        const char *xfn = kFunctions[((c.op->c >> 8) & 0xff) % kNumFunctions];
        m.file = xf ? xf : "";
        m.function = xfn ? xfn : "";
        m.category = kCategories[c.op->b % kNumCategories];
        m.message = c.text;
        m.time_ms = c.wall.empty() ? 0 : c.wall[0] / 1000000;
        model.eval(root, m);
        std::string r = model.out.empty() ? std::string() : strip_ansi(model.out[0].text);
        model.st = saved;
        model.out.clear();
        return r;
    }
};

// One output (stdout, stderr, log file): lines -> counts, order, text
struct OutputCheck
{
    std::string name;
    int copies = 0; // expected copies of every passing message
    bool tolerate_oldest_missing = false; // retention at work
    bool check_text = true;
};

void check_output(Verdict &v, const OutputCheck &oc, const std::vector<Line> &lines, std::map<int, Call19> &calls,
                  const Cfg19 &cfg, std::map<int, int> *counts_out)
{
    std::map<int, int> count;
    std::vector<int> first_order;
    for (auto &l : lines)
        if (l.cid >= 0) {
            if (count[l.cid]++ == 0)
                first_order.push_back(l.cid);
        }
    if (counts_out)
        *counts_out = count;
    // copies
    std::vector<const Call19 *> missing;
    // messages for which the configured pattern yields an empty text (everything in it is conditional on
    // another message type) are written as empty lines: they cannot be told apart, only counted
    auto empty_text = [&](const Call19 &c) { return cfg.pattern == 6 && c.op->a != 1; };
    int blank_want = 0, blank = 0;
    for (auto &l : lines)
        if (l.plain.empty())
            blank++;
    for (auto &kv : calls) {
        const Call19 &c = kv.second;
        if (c.ret < 0)
            continue;
        int n = count.count(c.cid) ? count[c.cid] : 0;
        int want = c.passes ? oc.copies : 0;
        if (oc.check_text && empty_text(c)) {
            if (n > 0 && want > 0)
                fail19(v, "wrong-format",
                       oc.name + ": message " + mname(c) + " is written with its text although the message pattern yields an empty text for its type",
                       "wrong-format/" + oc.name);
            blank_want += want;
            want = 0;
        }
        if (n == want)
            continue;
        if (!c.passes && n > 0) {
            fail19(v, "filtered-message-delivered",
                   oc.name + ": message " + mname(c) + " must be rejected by the configured filters but was written "
                           + std::to_string(n) + " time(s)",
                   "filtered-message-delivered/" + oc.name);
        } else if (want == 0 && n > 0) {
            fail19(v, "output-not-configured",
                   oc.name + " is not configured but received message " + mname(c),
                   "output-not-configured/" + oc.name);
        } else if (n > want) {
            fail19(v, "duplicate-output",
                   oc.name + ": message " + mname(c) + " appears " + std::to_string(n) + " times, expected "
                           + std::to_string(want),
                   "duplicate-output/" + oc.name);
        } else if (n == 0 && oc.tolerate_oldest_missing) {
            missing.push_back(&c);
        } else {
            fail19(v, "missing-output",
                   oc.name + ": message " + mname(c) + " appears " + std::to_string(n) + " times, expected "
                           + std::to_string(want),
                   "missing-output/" + oc.name);
        }
    }
    if (oc.check_text && (blank > blank_want || (blank < blank_want && !oc.tolerate_oldest_missing)))
        fail19(v, blank > blank_want ? "duplicate-output" : "missing-output",
               oc.name + ": " + std::to_string(blank) + " empty lines, expected " + std::to_string(blank_want)
                       + " (messages whose formatted text is empty)",
               std::string(blank > blank_want ? "duplicate-output/" : "missing-output/") + oc.name);
    for (const Call19 *m : missing) {
        bool older_present = false;
        for (auto &kv : calls)
            if (count.count(kv.first) && count[kv.first] > 0 && kv.second.ret >= 0 && m->invoke >= 0
                && kv.second.ret < m->invoke)
                older_present = true;
        if (older_present)
            fail19(v, "missing-output",
                   oc.name + ": message " + mname(*m) + " is missing although messages logged before it are present",
                   "missing-output/" + oc.name);
    }
    // order: per producer, and real-time precedence
    std::map<int, int> last;
    for (int cid : first_order) {
        const Call19 &c = calls[cid];
        auto it = last.find(c.producer);
        if (it != last.end() && it->second > c.opidx)
            fail19(v, "reordered-output", oc.name + ": messages of thread " + std::to_string(c.producer) + " are out of order",
                   "reordered-output/" + oc.name);
        last[c.producer] = c.opidx;
    }
    for (size_t i = 0; i < first_order.size() && v.ok; i++)
        for (size_t j = i + 1; j < first_order.size(); j++) {
            const Call19 &a = calls[first_order[i]], &b = calls[first_order[j]];
            if (b.ret >= 0 && a.invoke >= 0 && b.ret < a.invoke) {
                fail19(v, "reordered-output",
                       oc.name + ": message " + mname(b) + " was logged before " + mname(a) + " but is written after it",
                       "reordered-output/" + oc.name);
                break;
            }
        }
    // text, evaluated in the order this output shows
    Formatter19 fm(cfg);
    std::set<int> seen;
    for (auto &l : lines) {
        if (l.cid < 0 || !v.ok || !oc.check_text)
            continue;
        Call19 &c = calls[l.cid];
        bool first = seen.insert(l.cid).second;
        if (!fm.matches(c, l.plain, first)) {
            fail19(v, "wrong-format",
                   oc.name + ": message " + mname(c) + " is written as '" + clip(l.plain, 120) + "', expected '"
                           + clip(fm.example(c), 120) + "'",
                   "wrong-format/" + oc.name);
        }
    }
}

Verdict judge_handlers(const Plan &plan, const sim::Shm *shm, Verdict v)
{
    const uint32_t N = shm->nevents < sim::MAX_EVENTS ? shm->nevents : sim::MAX_EVENTS;
    std::map<int, std::vector<int>> seen; // step -> receivers
    for (uint32_t i = 0; i < N; i++)
        if (shm->events[i].kind == E_ACTIVE)
            seen[(int)shm->events[i].a].push_back((int)shm->events[i].b);
    // reference: possible (current, saved) states; -1 = Qt's default handler, 100 = the logger, -2 = nothing saved
    const int D = -1, L = 100, NONE = -2;
    std::set<std::pair<int, int>> states = { { D, NONE } };
    auto name = [&](int h) {
        return h == D ? std::string("Qt's default handler") : (h == L ? std::string("the logger") : "foreign handler F" + std::to_string(h));
    };
    std::string history = "start";
    int restores_leaving_foreign = 0, installs_over_foreign = 0;
    for (size_t i = 0; i <= plan.main_ops.size(); i++) {
        if (i > 0) {
            const Op &op = plan.main_ops[i - 1];
            std::set<std::pair<int, int>> next;
            for (auto st : states) {
                int cur = st.first, saved = st.second;
                if (op.kind == "install") {
                    if (cur != L) {
                        if (saved == NONE)
                            saved = cur;
                        else
                            installs_over_foreign++;
                        cur = L;
                    }
                    next.insert({ cur, saved });
                } else if (op.kind == "scratch") {
                    next.insert(st); // an unrelated Logger object comes and goes: nothing changes
                } else if (op.kind == "foreign") {
                    next.insert({ op.a % 3, saved });
                } else if (op.kind == "restore") {
                    if (saved == NONE) {
                        next.insert({ cur, saved });
                    } else if (cur == L) {
                        next.insert({ saved, NONE });
                    } else {
                        // a newer foreign handler stays; whether the remembered handler is forgotten
                        // is not fixed by the statement: both continuations are accepted
                        restores_leaving_foreign++;
                        next.insert({ cur, NONE });
                        next.insert({ cur, saved });
                    }
                }
            }
            states = next;
            history += ", " + op.kind + (op.kind == "foreign" ? " F" + std::to_string(op.a % 3) : "");
        }
        int got = D;
        auto it = seen.find((int)i);
        if (it != seen.end()) {
            if (it->second.size() > 1) {
                fail19(v, "marker-delivered-twice", "after '" + history + "' the marker message reached "
                               + std::to_string(it->second.size()) + " handlers");
                return v;
            }
            got = it->second[0];
        }
        std::set<std::pair<int, int>> keep;
        for (auto st : states)
            if (st.first == got)
                keep.insert(st);
        if (keep.empty()) {
            std::string want;
            std::set<int> w;
            for (auto st : states)
                w.insert(st.first);
            for (int h : w)
                want += (want.empty() ? "" : " or ") + name(h);
            bool after_restore = i > 0 && plan.main_ops[i - 1].kind == "restore";
            fail19(v, after_restore ? "restore-wrong-handler" : "wrong-active-handler",
                   "after '" + history + "' messages go to " + name(got) + ", expected " + want,
                   after_restore ? "restore-wrong-handler" : "wrong-active-handler");
            return v;
        }
        states = keep;
    }
    v.probes["handler_history_steps"] = (int)plan.main_ops.size();
    v.probes["restore_left_newer_foreign_handler"] = restores_leaving_foreign;
    v.probes["install_after_foreign_handler"] = installs_over_foreign;
    return v;
}

} // namespace

Verdict judge_c19(const Plan &plan, const sim::Shm *shm, const ChildExit &, const std::string &rundir, Verdict v)
{
    if (!v.ok)
        return v;
    if (shm->status == sim::ST_SIMFAIL) {
        fail19(v, shm->fail_class, shm->fail_msg);
        return v;
    }
    if (shm->status != sim::ST_DONE) {
        fail19(v, "crash", "the run did not reach its end (status " + std::to_string(shm->status) + ")");
        return v;
    }
    if (plan.cfg["family"].toString() == "handlers")
        return judge_handlers(plan, shm, v);

    const uint32_t N = shm->nevents < sim::MAX_EVENTS ? shm->nevents : sim::MAX_EVENTS;
    Cfg19 cfg = read_cfg(plan);

    std::map<int, Call19> calls;
    auto add = [&](int producer, const std::vector<Op> &ops) {
        for (size_t i = 0; i < ops.size(); i++)
            if (ops[i].kind == "log") {
                Call19 c;
                c.cid = call_id(producer, (int)i);
                c.producer = producer;
                c.opidx = (int)i;
                c.op = &ops[i];
                c.text = expected_text19(producer, (int)i, ops[i]);
                c.plain = strip_ansi(c.text, &c.own_seq);
                std::string cat = kCategories[ops[i].b % kNumCategories];
                c.passes = (cfg.rules < 0 || cat_verdict(cfg.rules, cat, ops[i].a))
                        && (cfg.regex < 0 || regex_verdict(cfg.regex, c.text));
                calls[c.cid] = c;
            }
    };
    add(0, plan.main_ops);
    for (size_t p = 0; p < plan.producers.size(); p++)
        add((int)p + 1, plan.producers[p]);

    long stop_begin = -1, final_flush = -1;
    int worker = -1, async_state = -1;
    struct SysEv
    {
        int prio;
        std::string text;
    };
    std::vector<SysEv> sys;
    std::vector<std::string> idents;
    struct Wr
    {
        long idx;
        int tid;
        std::string path;
    };
    std::vector<Wr> writes;
    for (uint32_t i = 0; i < N; i++) {
        const sim::Event &e = shm->events[i];
        switch (e.kind) {
        case E_INVOKE: {
            auto it = calls.find((int)e.a);
            if (it != calls.end())
                it->second.invoke = i;
            break;
        }
        case E_RETURN: {
            auto it = calls.find((int)e.a);
            if (it != calls.end()) {
                it->second.ret = i;
                std::string s = sim::ev_str(shm, e);
                size_t semi = s.find(';');
                std::istringstream is(s.substr(1, semi == std::string::npos ? std::string::npos : semi - 1));
                long long w;
                while (is >> w)
                    it->second.wall.push_back(w);
            }
            break;
        }
        case E_STOP_BEGIN:
            if (stop_begin < 0)
                stop_begin = i;
            break;
        case E_WORKER_TID:
            worker = (int)e.a;
            break;
        case E_ASYNC_STATE:
            async_state = (int)e.a;
            break;
        case E_NOTE:
            final_flush = i;
            break;
        case sim::EV_SYSLOG:
            sys.push_back({ (int)e.a, sim::ev_str(shm, e) });
            break;
        case sim::EV_OPENLOG:
            idents.push_back(sim::ev_str(shm, e));
            break;
        case sim::EV_FS_WRITE:
            writes.push_back({ (long)i, e.tid, sim::ev_str(shm, e) });
            break;
        default:
            break;
        }
    }

    // ---- asynchronous mode as configured ------------------------------------------------
    if (async_state != (cfg.async ? 1 : 0))
        fail19(v, "async-mismatch",
               std::string("the configuration asks for ") + (cfg.async ? "asynchronous" : "synchronous")
                       + " logging but ownThreadIsRunning() is " + (async_state ? "true" : "false"));
    if (cfg.async) {
        long until = stop_begin >= 0 ? stop_begin : (final_flush >= 0 ? final_flush : (long)N);
        for (auto &w : writes)
            if (w.idx < until && w.tid != worker && v.ok)
                fail19(v, "write-on-caller-thread",
                       "asynchronous logging is configured but thread T" + std::to_string(w.tid)
                               + " (not the logger thread) wrote to " + w.path);
    } else if (worker >= 0) {
        fail19(v, "async-mismatch", "synchronous logging is configured but a logger thread was started");
    }

    // ---- console ------------------------------------------------------------------------------
    auto out_lines = classify(file_lines(rundir + "/stdout.txt"), calls);
    auto err_lines = classify(file_lines(rundir + "/stderr.txt"), calls);
    std::map<int, int> cnt_out, cnt_err;
    OutputCheck so { "stdout", cfg.n_stdout, false, true };
    check_output(v, so, out_lines, calls, cfg, &cnt_out);
    OutputCheck se { "stderr", cfg.n_stderr + cfg.n_platform, false, true };
    check_output(v, se, err_lines, calls, cfg, &cnt_err);
    if (cfg.ini && v.ok)
        for (auto *ls : { &out_lines, &err_lines })
            for (auto &l : *ls)
                if (l.cid >= 0 && l.raw.find(calls[l.cid].text) == std::string::npos)
                    fail19(v, "message-altered", "console line for " + mname(calls[l.cid]) + " does not carry the message text verbatim");
    int stray_out = 0, stray_err = 0;
    // every output of one configuration carries the same formatted text for a message (one formatter
    // feeds all sinks); the file is added to this comparison below
    std::map<int, std::set<std::string>> texts;
    for (auto *ls : { &out_lines, &err_lines })
        for (auto &l : *ls)
            if (l.cid >= 0)
                texts[l.cid].insert(l.plain);
    for (auto &l : out_lines)
        if (l.cid < 0 && !l.plain.empty())
            stray_out++;
    for (auto &l : err_lines)
        if (l.cid < 0 && !l.plain.empty())
            stray_err++;
    if (cfg.n_stdout == 0 && stray_out > 0)
        fail19(v, "output-not-configured", "stdout is not configured but holds '" + clip(out_lines[0].plain, 80) + "'",
               "output-not-configured/stdout");

    // colour: a sink colours a whole line iff colour is configured and the descriptor is a terminal
    // A sink colours a line iff colour is configured for it and the descriptor is a terminal. Which escape
    // sequences it uses is not laid down: a line counts as coloured when it carries sequences beyond the
    // message's own, and then it must begin with one (the whole line is coloured, the text is intact).
    auto coloured_whole = [&](const Line &l) {
        const Call19 &c = calls[l.cid];
        return l.nseq > c.own_seq && l.raw.size() > 2 && l.raw[0] == '\033' && l.raw[1] == '[';
    };
    if (cfg.ini && v.ok) {
        for (auto &l : out_lines) {
            if (l.cid < 0)
                continue;
            bool col = l.nseq > calls[l.cid].own_seq;
            if (cfg.stdout_colour ? !coloured_whole(l) : col)
                fail19(v, "wrong-colour",
                       std::string("stdout line for ") + mname(calls[l.cid]) + (cfg.stdout_colour ? " is not" : " is")
                               + " coloured (stdout_color " + (cfg.stdout_colour ? "set and a terminal" : "not set or not a terminal")
                               + ")",
                       "wrong-colour/stdout");
        }
        std::map<int, int> ncol;
        for (auto &l : err_lines) {
            if (l.cid < 0)
                continue;
            if (l.nseq > calls[l.cid].own_seq) {
                if (!coloured_whole(l))
                    fail19(v, "wrong-colour", "stderr line for " + mname(calls[l.cid]) + " carries malformed colour codes",
                           "wrong-colour/stderr");
                ncol[l.cid]++;
            }
        }
        for (auto &kv : calls) {
            if (!kv.second.passes || kv.second.ret < 0)
                continue;
            if (cfg.pattern == 6 && kv.second.op->a != 1)
                continue; // written as an empty line: not attributable
            int n = ncol.count(kv.first) ? ncol[kv.first] : 0;
            int lo = (cfg.n_stderr && cfg.stderr_colour) ? 1 : 0;
            int hi = lo + ((cfg.n_platform && cfg.tty2) ? 1 : 0); // the platform sink's colouring is not specified
            if (n < lo || n > hi)
                fail19(v, "wrong-colour",
                       "stderr: " + std::to_string(n) + " coloured copies of " + mname(kv.second) + ", expected "
                               + std::to_string(lo) + (hi > lo ? ".." + std::to_string(hi) : ""),
                       "wrong-colour/stderr");
        }
    }

    // ---- syslog -----------------------------------------------------------------------------------
    {
        std::map<int, int> cnt;
        std::vector<int> order;
        for (auto &s : sys) {
            int cid = map_line(strip_ansi(s.text), calls);
            if (cid < 0)
                continue;
            const Call19 &c = calls[cid];
            if (cnt[cid]++ == 0)
                order.push_back(cid);
            std::string cat = kCategories[c.op->b % kNumCategories];
            std::string want = cat == "default" ? c.text : cat + ": " + c.text;
            int prio = c.op->a == 0 ? 7 : c.op->a == 4 ? 6 : c.op->a == 1 ? 4 : c.op->a == 2 ? 3 : 0;
            // the keys do not lay down the text syslog gets (the sink sends "<category>: <message>"; the
            // formatted text would be as legitimate): the message must be in it, at the right severity
            (void)want;
            if (s.text.find(c.text) == std::string::npos || s.prio != prio)
                fail19(v, "wrong-format",
                       "syslog: message " + mname(c) + " sent as priority " + std::to_string(s.prio) + " '" + clip(s.text, 80)
                               + "', expected priority " + std::to_string(prio) + " '" + clip(want, 80) + "'",
                       "wrong-format/syslog");
        }
        for (auto &kv : calls) {
            if (kv.second.ret < 0)
                continue;
            int n = cnt.count(kv.first) ? cnt[kv.first] : 0;
            int want = (cfg.syslog && kv.second.passes) ? 1 : 0;
            if (n != want)
                fail19(v, n > want ? (cfg.syslog ? (kv.second.passes ? "duplicate-output" : "filtered-message-delivered") : "output-not-configured") : "missing-output",
                       "syslog: message " + mname(kv.second) + " sent " + std::to_string(n) + " times, expected " + std::to_string(want),
                       std::string(n > want ? (cfg.syslog ? (kv.second.passes ? "duplicate-output" : "filtered-message-delivered") : "output-not-configured") : "missing-output") + "/syslog");
        }
        std::map<int, int> last;
        for (int cid : order) {
            const Call19 &c = calls[cid];
            if (last.count(c.producer) && last[c.producer] > c.opidx)
                fail19(v, "reordered-output", "syslog: messages of thread " + std::to_string(c.producer) + " are out of order",
                       "reordered-output/syslog");
            last[c.producer] = c.opidx;
        }
        if (cfg.syslog && (idents.empty() || idents.back() != cfg.ident))
            fail19(v, "wrong-syslog-ident", "syslog was not opened with the configured identifier '" + cfg.ident + "'");
        if (!cfg.syslog && !idents.empty())
            fail19(v, "output-not-configured", "syslog was opened although syslog_ident is not set", "output-not-configured/syslog");
    }

    // ---- log files ------------------------------------------------------------------------------------
    auto segs = logdir::read_log_dir(rundir + "/logs", "app", "log");
    int rotated = 0;
    if (!cfg.file) {
        if (!logdir::list_files(rundir + "/logs").empty())
            fail19(v, "output-not-configured", "no log file path is configured but the log directory is not empty",
                   "output-not-configured/file");
    } else {
        std::vector<std::string> raw;
        for (auto &s : segs) {
            if (!s.decode_ok) {
                fail19(v, "bad-gzip", "file " + s.name + ": " + s.decode_err);
                break;
            }
            if (s.rn.ok)
                rotated++;
            auto l = logdir::split_lines(s.content);
            raw.insert(raw.end(), l.begin(), l.end());
            if (s.rn.ok && s.rn.gz != cfg.compress)
                fail19(v, "wrong-compression",
                       std::string("rotated file ") + s.name + (cfg.compress ? " is not compressed although compression is configured"
                                                                            : " is compressed although compression is not configured"));
        }
        auto lines = classify(raw, calls);
        bool at_limit = cfg.rotating && cfg.N >= 2 && (int)segs.size() >= cfg.N;
        // one-line configuration: the pretty formatter's alignment depends on every earlier message, some
        // of which retention may have removed from the files; there the text is checked on the console
        // and the file is compared with the console below
        OutputCheck fo { "file", 1, at_limit, cfg.ini };
        std::map<int, int> cnt_file;
        check_output(v, fo, lines, calls, cfg, &cnt_file);
        for (auto &l : lines)
            if (l.cid >= 0)
                texts[l.cid].insert(l.plain);
        for (auto &l : lines)
            if (l.cid >= 0 && l.nseq > (cfg.ini ? calls[l.cid].own_seq : 0))
                fail19(v, "colour-in-file", "the log file line for " + mname(calls[l.cid]) + " contains terminal colour codes");
        // pre-existing content is kept (unless retention removed whole files)
        if (cfg.pre > 0) {
            int want = 0;
            for (int b = 0; b < cfg.pre; b += 18)
                want++;
            int have = 0;
            for (auto &l : lines)
                if (l.plain == "pre-existing line")
                    have++;
            if (have != want && !(at_limit && have == 0))
                fail19(v, "preexisting-content-lost",
                       "the log file held " + std::to_string(want) + " lines before the run; " + std::to_string(have)
                               + " of them are left");
            // start-up rotation: the old content must sit in a rotated file of its own
            bool wrote = false; // the sink initialises (and rotates) lazily, with its first record
            for (auto &l : lines)
                if (l.cid >= 0)
                    wrote = true;
            bool old_day = plan.cfg["pre_age_days"].toInt() > 0;
            bool must_rotate_start = cfg.rotating && cfg.startup;
            bool must_rotate_day = cfg.rotating && cfg.daily && old_day; // records of different days never share a file
            if ((must_rotate_start || must_rotate_day) && cfg.N != 1 && have > 0 && wrote) {
                bool mixed = false;
                for (auto &s : segs) {
                    bool has_pre = s.content.find("pre-existing line\n") != std::string::npos;
                    bool has_msg = false;
                    for (auto &ln : logdir::split_lines(s.content))
                        if (map_line(strip_ansi(ln), calls) >= 0)
                            has_msg = true;
                    if (has_pre && (has_msg || !s.rn.ok))
                        mixed = true;
                }
                if (mixed)
                    fail19(v, must_rotate_start ? "no-startup-rotation" : "no-daily-rotation",
                           must_rotate_start
                                   ? "rotation on start-up is configured but the content that existed before the run was not rotated away"
                                   : "daily rotation is configured but the content written on an earlier day shares a file with today's messages");
            }
        }
        if (!(cfg.rotating) && rotated > 0)
            fail19(v, "unexpected-rotation", "neither a size limit nor start-up/daily rotation is configured but rotated files exist");
        if (cfg.rotating && !cfg.startup && !cfg.daily && cfg.L <= 0 && rotated > 0)
            fail19(v, "unexpected-rotation", "no rotation trigger is configured but rotated files exist");
        if (cfg.rotating && cfg.N == 1 && rotated > 0)
            fail19(v, "unexpected-rotation", "the file-count limit is 1 but rotated files exist");
        if (cfg.rotating && cfg.L > 0 && cfg.N != 1)
            for (auto &s : segs) {
                auto ls = logdir::split_lines(s.content);
                if (s.content.find("pre-existing line\n") != std::string::npos)
                    continue; // not (only) written by this sink
                if ((long)s.content.size() > cfg.L && ls.size() > 1)
                    fail19(v, "size-limit-ignored",
                           "file " + s.name + " holds " + std::to_string(s.content.size()) + " bytes in "
                                   + std::to_string(ls.size()) + " records; max_file_size is " + std::to_string(cfg.L));
            }
        if (cfg.rotating && cfg.N >= 2 && (int)segs.size() > cfg.N)
            fail19(v, "count-limit-ignored",
                   std::to_string(segs.size()) + " log files exist; max_file_count is " + std::to_string(cfg.N));

        // one-line configuration: the file is the console text minus its colour codes, line for line
        if (!cfg.ini && v.ok) {
            std::vector<std::string> con, fil;
            for (auto &l : err_lines)
                if (l.cid >= 0)
                    con.push_back(l.plain);
            for (auto &l : lines)
                if (l.cid >= 0)
                    fil.push_back(l.plain);
            // retention may have removed the oldest file lines: compare the tails
            size_t k = std::min(con.size(), fil.size());
            bool same = at_limit ? true : con.size() == fil.size();
            for (size_t i = 0; i < k && same; i++)
                if (con[con.size() - 1 - i] != fil[fil.size() - 1 - i])
                    same = false;
            if (!same)
                fail19(v, "file-differs-from-console",
                       "one-line configuration: the log file is not the console text minus colour codes (console "
                               + std::to_string(con.size()) + " lines, file " + std::to_string(fil.size()) + " lines)");
            int coloured = 0;
            for (auto &l : err_lines)
                if (l.cid >= 0 && l.nseq > 0)
                    coloured++;
            v.probes["console_lines_with_colour"] = coloured;
        }
        v.probes["rotated_files"] = rotated;
        v.probes["file_lines"] = (int)lines.size();
    }

    for (auto &kv : texts)
        if (kv.second.size() > 1 && v.ok)
            fail19(v, "outputs-differ",
                   "message " + mname(calls[kv.first]) + " is written differently to different outputs: '"
                           + clip(*kv.second.begin(), 100) + "' vs '" + clip(*kv.second.rbegin(), 100) + "'");
    int npass = 0, nrej = 0;
    for (auto &kv : calls)
        (kv.second.passes ? npass : nrej)++;
    v.probes["messages_passing_filters"] = npass;
    v.probes["messages_rejected_by_filters"] = nrej;
    v.probes["stdout_lines"] = (int)out_lines.size();
    v.probes["stderr_lines"] = (int)err_lines.size();
    v.probes["stray_stderr_lines"] = stray_err;
    v.probes["syslog_messages"] = (int)sys.size();
    v.probes["async_runs"] = cfg.async ? 1 : 0;
    v.probes["tty_stdout"] = cfg.tty1;
    v.probes["tty_stderr"] = cfg.tty2;
    v.probes["ini_runs"] = cfg.ini ? 1 : 0;
    v.probes["oneline_runs"] = cfg.ini ? 0 : 1;
    return v;
}

} // namespace tsim
