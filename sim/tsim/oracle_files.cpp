// C11 oracle: evaluated in the parent, on the real directory the dead child left.
#include <map>
#include <set>
#include <sstream>

#include "events.h"
#include <functional>

#include "logdir.h"
#include "model.h"
#include "oracle.h"

namespace tsim {

namespace {
std::string expected_text11(int producer, int opidx, const Op &op)
{
    std::string t = "m" + std::to_string(producer) + "." + std::to_string(opidx) + " " + op.s;
    if (op.e > 0) {
        t += ' ';
        std::string pad(op.e, 'p');
        for (int i = 0; i < op.e; i += 64)
            pad[i] = char('A' + (i / 64) % 26);
        t += pad;
    }
    return t;
}
bool ends_with(const std::string &s, const std::string &suf)
{
    return s.size() >= suf.size() && s.compare(s.size() - suf.size(), suf.size(), suf) == 0;
}
void fail11(Verdict &v, const std::string &cls, const std::string &msg, const std::string &sig = std::string())
{
    if (!v.ok)
        return;
    v.ok = false;
    v.cls = cls;
    v.msg = msg;
    v.signature = sig.empty() ? cls : sig;
}
} // namespace

Verdict judge_c11(const Plan &plan, const sim::Shm *shm, const ChildExit &, const std::string &rundir, Verdict v)
{
    if (!v.ok)
        return v;
    const uint32_t N = shm->nevents < sim::MAX_EVENTS ? shm->nevents : sim::MAX_EVENTS;
    if (shm->status == sim::ST_SIMFAIL) {
        fail11(v, shm->fail_class, shm->fail_msg);
        return v;
    }

    struct Call
    {
        int cid, producer, opidx;
        std::string text;
        long invoke = -1, ret = -1;
        bool fatal = false;
        int type = 0;
        std::string category;
    };
    std::map<int, Call> calls;
    bool plan_has_fatal = false;
    auto add = [&](int producer, const std::vector<Op> &ops) {
        for (size_t i = 0; i < ops.size(); i++)
            if (ops[i].kind == "log" || ops[i].kind == "fatal") {
                Call c;
                c.cid = call_id(producer, (int)i);
                c.producer = producer;
                c.opidx = (int)i;
                c.text = expected_text11(producer, (int)i, ops[i]);
                c.fatal = ops[i].kind == "fatal";
                c.type = c.fatal ? 3 : ops[i].a;
                c.category = kCategories[ops[i].b % kNumCategories];
                if (c.fatal)
                    plan_has_fatal = true;
                calls[c.cid] = c;
            }
    };
    add(0, plan.main_ops);
    for (size_t p = 0; p < plan.producers.size(); p++)
        add((int)p + 1, plan.producers[p]);

    long fatal_invoke = -1;
    int fatal_cid = -1, fatal_calls = 0;
    for (uint32_t i = 0; i < N; i++) {
        const sim::Event &e = shm->events[i];
        if (e.kind == E_INVOKE) {
            auto it = calls.find((int)e.a);
            if (it != calls.end())
                it->second.invoke = i;
        } else if (e.kind == E_RETURN) {
            auto it = calls.find((int)e.a);
            if (it != calls.end())
                it->second.ret = i;
        } else if (e.kind == E_FATAL_INVOKE) {
            fatal_invoke = i;
            fatal_cid = (int)e.a;
            fatal_calls++;
        }
    }
    if (fatal_calls > 1) {
        // several fatal messages (different threads): the one that terminates the process is the one
        // whose thread called abort(); the others are ordinary unfinished calls
        int abort_tid = -1;
        for (uint32_t i = 0; i < N; i++)
            if (shm->events[i].kind == sim::EV_ABORT)
                abort_tid = shm->events[i].tid;
        for (uint32_t i = 0; i < N; i++) {
            const sim::Event &e = shm->events[i];
            if (e.kind == E_FATAL_INVOKE && e.tid == abort_tid) {
                fatal_invoke = i;
                fatal_cid = (int)e.a;
            }
        }
    }
    {
        // probe sink: send() and flush() intervals of different threads must never overlap
        int owner = -1, depth = 0, flushes = 0;
        for (uint32_t i = 0; i < N; i++) {
            const sim::Event &e = shm->events[i];
            bool in = e.kind == E_PROBE_IN || e.kind == E_FLUSH_IN;
            bool out = e.kind == E_PROBE_OUT || e.kind == E_FLUSH_OUT;
            if (e.kind == E_FLUSH_IN)
                flushes++;
            if (in) {
                if (depth > 0 && owner != e.tid)
                    fail11(v, "overlap",
                           std::string(e.kind == E_FLUSH_IN ? "flush()" : "send()") + " of a sink entered by thread T"
                                   + std::to_string(e.tid) + " while thread T" + std::to_string(owner)
                                   + " was inside a sink (the fatal message's flush is not covered by the logger's lock)");
                owner = e.tid;
                depth++;
            } else if (out && depth > 0) {
                depth--;
            }
        }
        v.probes["sink_flushes_observed"] = flushes;
    }
    bool died = shm->status == sim::ST_ABORT;
    if (fatal_invoke >= 0 && !died) {
        fail11(v, "fatal-did-not-abort", "a fatal message was logged but the process did not abort");
        return v;
    }
    if (plan_has_fatal && fatal_invoke < 0 && died) {
        fail11(v, "crash", "abort() without a fatal message");
        return v;
    }

    bool oneline = plan.cfg["mode"].toString().startsWith("oneline");
    bool multi = plan.cfg["mode"].toString() == "fluent-multi";
    int total_required = 0, total_present = 0, total_tolerated = 0, total_files = 0;

    auto check_file = [&](const std::string &stem, int limitN, const std::function<bool(const Call &)> &qualifies) {
        auto segs = logdir::read_log_dir(rundir, stem, "log");
        total_files += (int)segs.size();
        std::vector<std::string> lines;
        for (auto &s : segs) {
            if (!s.decode_ok) {
                fail11(v, "bad-gzip", "file " + s.name + ": " + s.decode_err);
                return;
            }
            auto l = logdir::split_lines(s.content);
            lines.insert(lines.end(), l.begin(), l.end());
        }
        // position of each call's record
        std::map<int, std::vector<size_t>> pos;
        {
            std::map<std::string, int> by_text;
            for (auto &kv : calls)
                by_text[kv.second.text] = kv.first;
            for (size_t i = 0; i < lines.size(); i++) {
                const std::string &ln = lines[i];
                if (!oneline) {
                    auto it = by_text.find(ln);
                    if (it != by_text.end())
                        pos[it->second].push_back(i);
                } else {
                    // pretty line: "<time> <letter> [T<n> ][[cat] ]<text>": find the "m<p>.<i> " token
                    size_t at = std::string::npos;
                    for (size_t k = 0; k + 3 < ln.size(); k++)
                        if (ln[k] == 'm' && isdigit((unsigned char)ln[k + 1]) && (k == 0 || ln[k - 1] == ' ')) {
                            at = k;
                            break;
                        }
                    if (at == std::string::npos)
                        continue;
                    auto it = by_text.find(ln.substr(at));
                    if (it != by_text.end())
                        pos[it->second].push_back(i);
                }
            }
        }
        std::vector<const Call *> missing, there;
        for (auto &kv : calls) {
            const Call &c = kv.second;
            auto it = pos.find(c.cid);
            size_t n = it == pos.end() ? 0 : it->second.size();
            if (n > 1)
                fail11(v, "duplicate", stem + ".log: record of " + c.text.substr(0, 40) + " appears " + std::to_string(n) + " times");
            if (n > 0 && !qualifies(c))
                fail11(v, "filtered-message-in-file", stem + ".log holds " + c.text.substr(0, 40) + ", which its filter rejects");
            if (n > 0)
                there.push_back(&c);
            bool must = false;
            if (fatal_invoke >= 0 && qualifies(c)) {
                if (c.cid == fatal_cid)
                    must = true;
                else if (c.ret >= 0 && c.ret < fatal_invoke)
                    must = true;
            }
            if (must) {
                total_required++;
                if (n == 0)
                    missing.push_back(&c);
                else
                    total_present++;
            }
        }
        for (const Call *c : missing) {
            // The retention limit (N >= 2) legitimately removes whole oldest files: a missing record is
            // tolerated iff the directory is at its limit and no record that is present was logged
            // before it (call returned before this one was invoked) - never the fatal record itself.
            if (c->cid != fatal_cid && limitN >= 2 && (int)segs.size() >= limitN) {
                bool older_present = false;
                for (const Call *p : there)
                    if (p->ret >= 0 && c->invoke >= 0 && p->ret < c->invoke)
                        older_present = true;
                if (!older_present) {
                    total_tolerated++;
                    continue;
                }
            }
            std::string what = c->cid == fatal_cid ? "the fatal message" : "a message logged before the fatal one";
            fail11(v, "fatal-not-flushed",
                   what + " is not in " + stem + ".log (or its rotated files) after the process died: " + c->text.substr(0, 60)
                           + " (" + plan.cfg["mode"].toString().toStdString() + ")",
                   std::string("fatal-not-flushed/") + (c->cid == fatal_cid ? "fatal-record" : "earlier-record"));
        }
        // order among the present records: per producer, and real-time precedence
        if (v.ok) {
            std::vector<std::pair<size_t, const Call *>> ordered;
            for (auto &kv : pos)
                if (!kv.second.empty())
                    ordered.push_back({ kv.second[0], &calls[kv.first] });
            std::sort(ordered.begin(), ordered.end());
            std::map<int, int> last;
            for (auto &pc : ordered) {
                const Call *c = pc.second;
                auto it = last.find(c->producer);
                if (it != last.end() && it->second > c->opidx)
                    fail11(v, "reordered", "records of producer " + std::to_string(c->producer) + " are out of order in " + stem + ".log");
                last[c->producer] = c->opidx;
            }
            for (size_t i = 0; i < ordered.size() && v.ok; i++)
                for (size_t j = i + 1; j < ordered.size(); j++)
                    if (ordered[j].second->ret >= 0 && ordered[i].second->invoke >= 0
                        && ordered[j].second->ret < ordered[i].second->invoke) {
                        fail11(v, "reordered", "a record logged earlier (call returned) is placed after a later one in " + stem + ".log");
                        break;
                    }
        }
    };

    bool rot = plan.cfg["mode"].toString().endsWith("rot") || plan.cfg["main_rot"].toBool();
    int limitN = rot ? plan.cfg["max_count"].toInt() : 0;
    check_file("app", limitN, [](const Call &) { return true; });
    v.probes["first_sink_device_full"] = plan.cfg["audit_enospc"].toBool() ? 1 : 0;
    if (multi && !plan.cfg["audit_enospc"].toBool()) {
        // (when every write to audit.log fails, nothing is promised about that file; the other
        // sink's file is judged all the same)
        int kind = plan.cfg["audit_kind"].toInt(), arg = plan.cfg["audit_arg"].toInt();
        check_file("audit", 0, [&](const Call &c) {
            if (kind == 0)
                return model::priority(c.type) >= model::priority(arg);
            if (kind == 1)
                return model::cat_verdict(arg, c.category, c.type);
            return model::regex_verdict(arg, c.text);
        });
    }
    int required = total_required, present = total_present, retention_tolerated = total_tolerated;
    v.probes["records_removed_by_retention"] = retention_tolerated;
    v.probes["multi_sink_runs"] = multi ? 1 : 0;
    int big = 0;
    for (auto &kv : calls)
        if (kv.second.text.size() > 16384)
            big++;
    v.probes["required_records"] = required;
    v.probes["present_records"] = present;
    v.probes["records_above_16k"] = big;
    v.probes["files"] = total_files;
    v.probes["died_by_abort"] = died ? 1 : 0;
    v.probes["several_fatal_calls"] = fatal_calls > 1 ? 1 : 0;
    v.probes["fatal_from_nonmain"] = (fatal_cid >= 0 && (fatal_cid >> 16) != 0) ? 1 : 0;
    return v;
}

// C08, thread slice: every sink's directory, read back with the strict gzip reader, must hold exactly the
// records its thread sent, in order
Verdict judge_c08t(const Plan &plan, const sim::Shm *shm, const ChildExit &, const std::string &rundir, Verdict v)
{
    if (!v.ok)
        return v;
    if (shm->status == sim::ST_SIMFAIL) {
        fail11(v, shm->fail_class, shm->fail_msg);
        return v;
    }
    int gz = 0, files = 0;
    for (size_t p = 0; p < plan.producers.size(); p++) {
        int producer = (int)p + 1;
        std::string want;
        for (size_t i = 0; i < plan.producers[p].size(); i++) {
            const Op &op = plan.producers[p][i];
            if (op.kind != "send")
                continue;
            std::string t = "s" + std::to_string(producer) + "." + std::to_string(i) + " " + op.s;
            if (op.e > 0) {
                std::string pad(op.e, 'q');
                for (int x = 0; x < op.e; x += 61)
                    pad[x] = char('a' + (x / 61 + producer) % 26);
                t += ' ';
                t += pad;
            }
            want += t + "\n";
        }
        auto segs = logdir::read_log_dir(rundir + "/s" + std::to_string(producer), "app", "log");
        std::string got;
        for (auto &sg : segs) {
            files++;
            if (sg.rn.ok && sg.rn.gz)
                gz++;
            if (!sg.decode_ok) {
                fail11(v, "bad-gzip",
                       "sink " + std::to_string(producer) + ": " + sg.name + " is not a valid gzip file of the rotated log ("
                               + sg.decode_err + ") - the sinks of other threads were rotating at the same time");
                return v;
            }
            got += sg.content;
        }
        if (got != want) {
            fail11(v, "gz-content-mismatch",
                   "sink " + std::to_string(producer) + ": reading its files back gives " + std::to_string(got.size())
                           + " bytes, its thread sent " + std::to_string(want.size()));
            return v;
        }
    }
    v.probes["thread_slice_runs"] = 1;
    v.probes["thread_slice_gz_files"] = gz;
    v.probes["thread_slice_files"] = files;
    v.probes["file_io_yields"] = shm->counters[sim::C_YIELD_IO];
    return v;
}

} // namespace tsim
