#pragma once
#include <string>

#include "plan.h"

namespace tsim {

// Executes the plan in the calling (forked) process under the scheduler and
// never returns: the process leaves through finish_run / fail_run / exit / abort.
[[noreturn]] void run_child(const Plan &plan, const std::string &rundir);

// one-time Qt warm-up in the zygote (before any fork)
void warm_up();

// serialisation of a message's content, shared with the oracle
// fields separated by \x1f:
//  type line file function category message time_ms steady_ns thread formatted? formatted attrs
std::string unit_sep();

// C19 (c19.cpp)
[[noreturn]] void run_child_c19(const Plan &plan, const std::string &rundir);

} // namespace tsim
