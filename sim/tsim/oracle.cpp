// Parent-side oracles for tsim: evaluated over the recorded history (event log
// in shared memory) and the plan, after the child is gone.
#include "oracle.h"

#include <algorithm>
#include <csignal>
#include <cstdio>
#include <cstring>
#include <functional>
#include <set>
#include <sstream>

#include "events.h"
#include "harness_int.h"
#include "model.h"

namespace tsim {

Verdict judge_c11(const Plan &plan, const sim::Shm *shm, const ChildExit &ex, const std::string &rundir,
                  Verdict v); // oracle_files.cpp
Verdict judge_c19(const Plan &plan, const sim::Shm *shm, const ChildExit &ex, const std::string &rundir,
                  Verdict v); // c19.cpp
Verdict judge_c08t(const Plan &plan, const sim::Shm *shm, const ChildExit &ex, const std::string &rundir,
                   Verdict v); // oracle_files.cpp

namespace {

struct Content
{
    int type = 0, line = 0;
    bool file_null = false, func_null = false, cat_null = false;
    std::string file, function, category, message;
    long long time_ms = 0, steady_ns = 0;
    int thread_ok = -1;
    bool formatted = false;
    std::string fmt, attrs;
};

std::vector<std::string> split(const std::string &s, char sep)
{
    std::vector<std::string> out;
    size_t start = 0;
    for (;;) {
        size_t p = s.find(sep, start);
        if (p == std::string::npos) {
            out.push_back(s.substr(start));
            break;
        }
        out.push_back(s.substr(start, p - start));
        start = p + 1;
    }
    return out;
}

bool parse_content(const std::string &s, Content &c)
{
    auto f = split(s, '\x1f');
    if (f.size() != 12)
        return false;
    c.type = atoi(f[0].c_str());
    c.line = atoi(f[1].c_str());
    auto cs = [](const std::string &x, bool &isnull) {
        isnull = (x == "\x01N");
        return isnull ? std::string() : x;
    };
    c.file = cs(f[2], c.file_null);
    c.function = cs(f[3], c.func_null);
    c.category = cs(f[4], c.cat_null);
    c.message = f[5];
    c.time_ms = atoll(f[6].c_str());
    c.steady_ns = atoll(f[7].c_str());
    c.thread_ok = atoi(f[8].c_str());
    c.formatted = f[9] == "1";
    c.fmt = f[10];
    c.attrs = f[11];
    return true;
}

struct Call
{
    int cid = -1, producer = 0, opidx = 0;
    const Op *op = nullptr;
    long invoke = -1, ret = -1, entry = -1, exit = -1;
    int caller_tid = -1, entry_tid = -1;
    std::vector<long long> wall, mono;
    long long wall_in = 0, wall_out = 0; // the wall clock when the call began / had returned
    Content ec;
    int n_entry = 0, n_exit = 0;
    std::string text; // expected message text
};

std::string expected_text(int producer, int opidx, const Op &op)
{
    std::string t = ((op.c >> 16) & 4) ? op.s : "m" + std::to_string(producer) + "." + std::to_string(opidx) + " " + op.s;
    if (op.e > 0) {
        t += ' ';
        std::string pad(op.e, 'p');
        for (int i = 0; i < op.e; i += 64)
            pad[i] = char('A' + (i / 64) % 26);
        t += pad;
    }
    return t;
}

using namespace model;

void fail(Verdict &v, const std::string &cls, const std::string &msg, const std::string &sig = std::string())
{
    if (!v.ok)
        return; // keep the first failure
    v.ok = false;
    v.cls = cls;
    v.msg = msg;
    v.signature = sig.empty() ? cls : sig;
}

bool is_pipeline_event(uint16_t k)
{
    return k == E_ENTRY || k == E_EXIT || k == E_H_IN || k == E_H_OUT || k == E_DELIVER || k == E_GATE_WAIT
            || k == E_PROBE_IN || k == E_PROBE_OUT;
}
int pipeline_event_cid(const sim::Event &e)
{
    if (e.kind == E_ENTRY || e.kind == E_EXIT)
        return (int)e.a;
    return (int)e.b;
}

struct StopWindow
{
    long begin = -1, end = -1;
    int path = 0;
    int app_alive = 1;
    int op = -1;
};

} // namespace

Verdict judge(const Plan &plan, const sim::Shm *shm, const ChildExit &ex, const std::string &rundir)
{
    Verdict v;
    const uint32_t N = shm->nevents < sim::MAX_EVENTS ? shm->nevents : sim::MAX_EVENTS;

    // ---- how did the process end ------------------------------------------------
    bool complete = false; // the scenario ran to its end
    if (shm->events_dropped) {
        v.ok = false;
        v.machinery = true;
        v.cls = "machinery";
        v.msg = "event log overflow";
        return v;
    }
    if (ex.signaled) {
        if (ex.sig == SIGALRM)
            fail(v, "no-progress", "real-time watchdog fired: a thread never reached a scheduling point again");
        else
            fail(v, "crash", "child killed by signal " + std::to_string(ex.sig));
    } else if (ex.code == 77) {
        fail(v, "memory", "sanitizer report (exit code 77)");
    } else if (shm->status == sim::ST_SIMFAIL) {
        std::string cls = shm->fail_class;
        if (cls == "diverged" || cls == "machinery") {
            v.ok = false;
            v.machinery = true;
            v.cls = cls;
            v.msg = shm->fail_msg;
            return v;
        }
        // classified below once the stop windows are known
    } else if (shm->status == sim::ST_DONE || shm->status == sim::ST_EXITED) {
        complete = true;
    } else if (shm->status == sim::ST_ABORT) {
        // expected for C11 (qFatal) and for plans that end in a fatal message; elsewhere an unplanned death
        bool planned = false;
        for (auto &ops : plan.producers)
            for (auto &o : ops)
                if (o.kind == "fatal")
                    planned = true;
        for (auto &o : plan.main_ops)
            if (o.kind == "fatal")
                planned = true;
        if (plan.prop != "C11" && plan.prop != "C19" && !planned)
            fail(v, "crash", "abort() called");
    } else {
        fail(v, "crash", "child exited with code " + std::to_string(ex.code) + " before finishing");
    }

    if (plan.prop == "C11")
        return judge_c11(plan, shm, ex, rundir, v);
    if (plan.prop == "C08")
        return judge_c08t(plan, shm, ex, rundir, v);
    if (plan.prop == "C19")
        return judge_c19(plan, shm, ex, rundir, v);

    // ---- index the calls ----------------------------------------------------------
    std::map<int, Call> calls;
    auto add_calls = [&](int producer, const std::vector<Op> &ops) {
        for (size_t i = 0; i < ops.size(); i++)
            if (ops[i].kind == "log" || ops[i].kind == "fatal") {
                Call c;
                c.cid = call_id(producer, (int)i);
                c.producer = producer;
                c.opidx = (int)i;
                c.op = &ops[i];
                c.text = expected_text(producer, (int)i, ops[i]);
                calls[c.cid] = c;
            }
    };
    add_calls(0, plan.main_ops);
    for (size_t p = 0; p < plan.producers.size(); p++)
        add_calls((int)p + 1, plan.producers[p]);

    // messages logged by the logger thread itself (relog handler): calls of producer 62, discovered
    // from their invoke events
    int nested_calls = 0;
    for (uint32_t i = 0; i < N; i++) {
        const sim::Event &e = shm->events[i];
        if (e.kind == E_INVOKE && ((int)e.a >> 16) == kNestedProducer && !calls.count((int)e.a)) {
            Call c;
            c.cid = (int)e.a;
            c.producer = kNestedProducer;
            c.opidx = (int)e.a & 0xffff;
            c.op = &nested_op();
            c.text = expected_text(c.producer, c.opidx, *c.op);
            calls[c.cid] = c;
            nested_calls++;
        }
    }
    v.probes["messages_logged_by_logger_thread"] = nested_calls;

    std::vector<StopWindow> stops;
    std::vector<std::pair<long, int>> worker_tids; // (event index, tid)
    long handler_gone = -1;
    std::map<int, std::pair<long, long>> life; // producer -> (start, done)
    life[0] = { 0, (long)N + 1 };
    std::vector<long> move_begin; // event index of move ops that created a worker

    for (uint32_t i = 0; i < N; i++) {
        const sim::Event &e = shm->events[i];
        switch (e.kind) {
        case E_INVOKE: {
            auto it = calls.find((int)e.a);
            if (it != calls.end()) {
                it->second.invoke = i;
                it->second.caller_tid = e.tid;
                it->second.wall_in = e.b;
            }
            break;
        }
        case E_RETURN: {
            auto it = calls.find((int)e.a);
            if (it != calls.end()) {
                it->second.ret = i;
                it->second.wall_out = e.b;
                std::string s = sim::ev_str(shm, e);
                auto parts = split(s, ';');
                for (auto &part : parts) {
                    auto toks = split(part, ' ');
                    for (size_t k = 1; k < toks.size(); k++)
                        (toks[0] == "w" ? it->second.wall : it->second.mono).push_back(atoll(toks[k].c_str()));
                }
            }
            break;
        }
        case E_STOP_BEGIN: {
            StopWindow w;
            w.begin = i;
            w.path = (int)e.b;
            w.app_alive = (int)e.c;
            w.op = (int)e.a;
            stops.push_back(w);
            break;
        }
        case E_STOP_END:
            for (auto it = stops.rbegin(); it != stops.rend(); ++it)
                if (it->end < 0 && it->path == (int)e.b) {
                    it->end = i;
                    break;
                }
            break;
        case sim::EV_EXIT_DONE:
            for (auto &w : stops)
                if (w.path == 4 && w.end < 0)
                    w.end = i;
            break;
        case E_WORKER_TID:
            worker_tids.push_back({ (long)i, (int)e.a });
            break;
        case E_HANDLER_GONE:
            handler_gone = i;
            break;
        case E_PRODUCER:
            life[(int)e.a].first = i;
            life[(int)e.a].second = (long)N + 1;
            break;
        case E_PRODUCER_DONE:
            life[(int)e.a].second = i;
            break;
        default:
            break;
        }
    }

    // ---- scheduler-ended runs: classify ---------------------------------------------
    if (shm->status == sim::ST_SIMFAIL) {
        std::string cls = shm->fail_class;
        const StopWindow *open = nullptr;
        for (auto &w : stops)
            if (w.end < 0)
                open = &w;
        if (open && (cls == "cap-decisions" || cls == "cap-time" || cls == "deadlock")) {
            int backlog = 0;
            for (auto &kv : calls)
                if (kv.second.ret >= 0 && kv.second.ret < open->begin)
                    backlog++; // refined below (entries before the stop are not backlog)
            std::string sig = std::string("stop-never-returns/") + (open->app_alive ? "app-alive" : "no-qcoreapplication");
            fail(v, "stop-never-returns",
                 "stop (path " + std::to_string(open->path) + ", QCoreApplication "
                         + (open->app_alive ? "alive" : "gone") + ") did not return: " + cls + ": " + shm->fail_msg,
                 sig);
        } else {
            fail(v, cls, shm->fail_msg);
        }
    }

    // ---- C02 slice "two pipelines": each pipeline on its own --------------------------
    if (plan.target == "dual") {
        if (v.ok && !complete)
            fail(v, "incomplete", "the run did not reach its end");
        for (int k = 0; k < 2 && v.ok; k++) {
            Node root;
            root.kind = "pipe";
            Node f;
            f.kind = "pattern";
            f.a = plan.cfg[k ? "pattern_b" : "pattern_a"].toInt();
            f.id = 1;
            Node r;
            r.kind = "rec";
            r.a = k;
            r.id = 2;
            root.kids.push_back(f);
            root.kids.push_back(r);
            Model model;
            std::set<int> seen;
            std::map<int, int> last;
            for (uint32_t i = 0; i < N && v.ok; i++) {
                const sim::Event &e = shm->events[i];
                if (e.kind != E_DELIVER || (int)e.a != k)
                    continue;
                int cid = (int)e.b;
                auto it = calls.find(cid);
                std::string who = "pipeline " + std::string(k ? "B" : "A") + ": message " + std::to_string(cid >> 16) + "." + std::to_string(cid & 0xffff);
                if (it == calls.end() || ((it->second.producer & 1) != k)) {
                    fail(v, "phantom", who + " was never sent to this pipeline");
                    break;
                }
                Call &c = it->second;
                if (!seen.insert(cid).second) {
                    fail(v, "duplicate", who + " delivered twice");
                    break;
                }
                if (last.count(c.producer) && last[c.producer] > c.opidx) {
                    fail(v, "reordered", who + " delivered after a later message of the same thread");
                    break;
                }
                last[c.producer] = c.opidx;
                Content got;
                if (!parse_content(sim::ev_str(shm, e), got)) {
                    fail(v, "machinery-parse", "cannot parse delivery content");
                    break;
                }
                Msg m;
                m.cid = cid;
                m.type = c.op->a;
                m.line = cid + 1;
                const char *xfile = kFiles[(c.op->c & 0xff) % kNumFiles];
                const char *xfunc = kFunctions[((c.op->c >> 8) & 0xff) % kNumFunctions];
                m.file = xfile ? xfile : "";
                (void)xfunc;
                m.function = "void Cls" + std::to_string(cid) + "::fn" + std::to_string(cid) + "(int)";
                m.category = kCategories[c.op->b % kNumCategories];
                m.message = c.text;
                int flags = c.op->c >> 16;
                if (flags & 1) {
                    m.formatted = true;
                    m.fmt = "PRE<" + std::to_string(cid) + ">";
                }
                model.out.clear();
                if (f.a == 100) {
                    Delivery d = Delivery(); // (value-initialised: the struct has plain members)
                    d.text = "Cls" + std::to_string(cid) + "::fn" + std::to_string(cid) + "|" + c.text;
                    model.out.push_back(d);
                } else {
                    model.eval(root, m);
                }
                std::string field;
                std::string have = got.formatted ? got.fmt : got.message;
                if (model.out.empty() || !got.formatted || !match_with_field(model.out[0].text, 0, have, 0, &field))
                    fail(v, "wrong-text",
                         who + ": expected '" + clip(model.out.empty() ? std::string() : model.out[0].text) + "' got '" + clip(have)
                                 + "' (the other pipeline was formatting at the same time)");
            }
            for (auto &kv : calls)
                if (v.ok && complete && (kv.second.producer & 1) == k && kv.second.ret >= 0 && !seen.count(kv.first))
                    fail(v, "lost", "pipeline " + std::string(k ? "B" : "A") + ": message " + clip(kv.second.text, 40) + " was not delivered");
        }
        v.probes["two_pipeline_runs"] = 1;
        return v;
    }

    // ---- pipeline scan: mutual exclusion, entries, deliveries ---------------------
    const int NONE = -0x7fffffff;
    int current = NONE; // call id inside the pipeline (-1: a message that is not the plan's, e.g. a Qt warning)
    int foreign_msgs = 0;
    std::vector<long> entry_order; // event indices of E_ENTRY
    struct Act
    {
        int sink, cid;
        Content c;
        long idx;
        int tid;
    };
    std::vector<Act> actual;
    for (uint32_t i = 0; i < N; i++) {
        const sim::Event &e = shm->events[i];
        if (!is_pipeline_event(e.kind))
            continue;
        int cid = pipeline_event_cid(e);
        if (e.kind == E_ENTRY) {
            if (current != NONE || e.b != 0)
                fail(v, "overlap",
                     "two messages inside the pipeline at once: call " + std::to_string(cid) + " entered (thread T"
                             + std::to_string(e.tid) + ") while call " + std::to_string(current) + " was inside");
            current = cid;
            entry_order.push_back(i);
            auto it = calls.find(cid);
            if (cid < 0) {
                // not one of the plan's messages: Qt itself logged through the installed handler
                // (e.g. "QEventLoop: Cannot be used without QApplication" in the logger thread).
                // It is a legitimate message; the model evaluates it from its observed content.
                foreign_msgs++;
            } else if (it == calls.end()) {
                fail(v, "phantom", "pipeline entered by an unknown message id " + std::to_string(cid));
            } else {
                Call &c = it->second;
                c.n_entry++;
                if (c.n_entry == 1) {
                    c.entry = i;
                    c.entry_tid = e.tid;
                    if (!parse_content(sim::ev_str(shm, e), c.ec))
                        fail(v, "machinery-parse", "cannot parse entry content");
                } else {
                    fail(v, "duplicate", "message " + c.text.substr(0, 40) + " entered the pipeline twice");
                }
            }
        } else {
            if (cid != current)
                fail(v, "overlap",
                     "handler event of call " + std::to_string(cid) + " while call " + std::to_string(current)
                             + " is inside the pipeline");
            if (e.kind == E_EXIT) {
                auto it = calls.find(cid);
                if (it != calls.end()) {
                    it->second.n_exit++;
                    it->second.exit = i;
                }
                current = NONE;
            } else if (e.kind == E_DELIVER) {
                Act a;
                a.sink = (int)e.a;
                a.cid = cid;
                a.idx = i;
                a.tid = e.tid;
                if (!parse_content(sim::ev_str(shm, e), a.c))
                    fail(v, "machinery-parse", "cannot parse delivery content");
                actual.push_back(a);
            }
        }
    }

    // ---- content at entry -----------------------------------------------------------
    bool clock_jumps = false;
    for (auto &o : plan.main_ops)
        if (o.kind == "clock_jump")
            clock_jumps = true;
    int null_normalised = 0;
    for (auto &kv : calls) {
        Call &c = kv.second;
        if (c.n_entry == 0)
            continue;
        const Op &op = *c.op;
        const Content &ec = c.ec;
        std::ostringstream why;
        const char *xfile = kFiles[(op.c & 0xff) % kNumFiles];
        const char *xfunc = kFunctions[((op.c >> 8) & 0xff) % kNumFunctions];
        const char *xcat = kCategories[op.b % kNumCategories];
        int xtype = op.kind == "fatal" ? 3 : op.a;
        if (ec.type != xtype)
            why << " type " << ec.type << "!=" << xtype;
        if (ec.line != c.cid + 1)
            why << " line " << ec.line << "!=" << (c.cid + 1);
        if (ec.message != c.text)
            why << " text '" << clip(ec.message, 60) << "'!='" << clip(c.text, 60) << "'";
        if (ec.file != (xfile ? xfile : ""))
            why << " file '" << clip(ec.file, 40) << "'";
        if (ec.function != (xfunc ? xfunc : ""))
            why << " function '" << clip(ec.function, 40) << "'";
        if (ec.category != xcat)
            why << " category '" << clip(ec.category, 40) << "'";
        // a null source location stays null (and a non-null one non-null) on the way to the handlers: Qt's own
        // formatter prints "unknown" for a null pointer and nothing for an empty string
        if (ec.file_null != (xfile == nullptr))
            why << " file pointer is " << (ec.file_null ? "null" : "not null (empty string)") << " at the handler, the caller passed "
                << (xfile ? "a string" : "null");
        if (ec.func_null != (xfunc == nullptr))
            why << " function pointer is " << (ec.func_null ? "null" : "not null (empty string)") << " at the handler, the caller passed "
                << (xfunc ? "a string" : "null");
        if (ec.cat_null)
            why << " category pointer is null at the handler";
        if (!xfile || !xfunc)
            null_normalised++;
        if (ec.thread_ok != 1)
            why << " thread id is not the calling thread's";
        if (c.ret >= 0) {
            bool tok = false;
            for (long long w : c.wall)
                if (w / 1000000 == ec.time_ms)
                    tok = true;
            if (!tok && !c.wall.empty())
                why << " time() " << ec.time_ms << " is none of the " << c.wall.size()
                    << " wall-clock values the caller read during the call";
            // the caller read no wall clock at all: however the time is obtained, it is the time of the
            // call (not judged when the plan lets the wall clock jump)
            if (c.wall.empty() && !clock_jumps
                && (ec.time_ms < c.wall_in / 1000000 || ec.time_ms > c.wall_out / 1000000))
                why << " time() " << ec.time_ms << " lies outside the call (" << c.wall_in / 1000000 << ".."
                    << c.wall_out / 1000000 << " ms)";
            bool sok = false;
            for (long long m : c.mono)
                if (m == ec.steady_ns)
                    sok = true;
            if (!sok && !c.mono.empty())
                why << " steadyTime() was not sampled by the caller during the call";
        }
        int flags = op.c >> 16;
        if (plan.target == "bare") {
            std::string xfmt = (flags & 1) ? "PRE<" + std::to_string(c.cid) + ">" : c.text;
            if (ec.formatted != ((flags & 1) != 0) || ec.fmt != xfmt)
                why << " formatted text '" << clip(ec.fmt, 40) << "'!='" << xfmt << "'";
            std::string xattrs = (flags & 2) ? "pre=" + std::to_string(c.cid) : "";
            if (ec.attrs != xattrs)
                why << " attributes '" << clip(ec.attrs, 40) << "'!='" << xattrs << "'";
        } else {
            if (ec.formatted || !ec.attrs.empty())
                why << " unexpected formatted text/attributes at entry";
        }
        if (!why.str().empty())
            fail(v, "content", "message " + clip(c.text, 40) + " changed on its way into the pipeline:" + why.str());
    }
    v.probes["null_location_messages_judged"] = null_normalised;

    // ---- model over the observed serialisation order ---------------------------------
    Model model;
    // "Consecutive" does not say where the numbering starts: the reference counts from 0; the start of each
    // sequence-number attribute is taken from the first delivery that shows it (evaluate once, align, evaluate again)
    auto evaluate = [&](Model &model) {
    for (long idx : entry_order) {
            const sim::Event &e = shm->events[idx];
            if ((int)e.a < 0) {
                Content fc;
                if (!parse_content(sim::ev_str(shm, e), fc))
                    continue;
                Msg m;
                m.cid = (int)e.a;
                m.type = fc.type;
                m.line = fc.line;
                m.file = fc.file;
                m.function = fc.function;
                m.category = fc.category;
                m.message = fc.message;
                m.time_ms = fc.time_ms;
                model.eval(plan.root, m);
                continue;
            }
            auto it = calls.find((int)e.a);
            if (it == calls.end() || it->second.entry != idx)
                continue;
            Call &c = it->second;
            Msg m;
            m.cid = c.cid;
            m.type = c.op->kind == "fatal" ? 3 : c.op->a;
            m.line = c.cid + 1;
            const char *xfile = kFiles[(c.op->c & 0xff) % kNumFiles];
            const char *xfunc = kFunctions[((c.op->c >> 8) & 0xff) % kNumFunctions];
            m.file = xfile ? xfile : "";
            m.function = xfunc ? xfunc : "";
            m.category = kCategories[c.op->b % kNumCategories];
            m.message = c.text;
            m.time_ms = c.ec.time_ms;
            int flags = c.op->c >> 16;
            if (plan.target == "bare") {
                if (flags & 1) {
                    m.formatted = true;
                    m.fmt = "PRE<" + std::to_string(c.cid) + ">";
                }
                if (flags & 2)
                    m.attrs["pre"] = std::to_string(c.cid);
            }
            model.eval(plan.root, m);
        }
    };
    evaluate(model);
    {
        std::map<int, int> offset;
        size_t n0 = std::min(model.out.size(), actual.size());
        for (size_t i = 0; i < n0; i++) {
            auto ea = split(model.out[i].attrs, '\x1e'), aa = split(actual[i].c.attrs, '\x1e');
            for (auto &kv : ea) {
                size_t eq = kv.find('=');
                if (eq == std::string::npos)
                    continue;
                std::string key = kv.substr(0, eq);
                int which = key == "seq" ? 0 : (key == "seq2" ? 1 : -1);
                if (which < 0 || offset.count(which))
                    continue;
                for (auto &kv2 : aa)
                    if (kv2.compare(0, eq + 1, kv.substr(0, eq + 1)) == 0)
                        offset[which] = atoi(kv2.c_str() + eq + 1) - atoi(kv.c_str() + eq + 1);
            }
        }
        bool shifted = false;
        for (auto &kv : offset)
            if (kv.second != 0)
                shifted = true;
        if (shifted) {
            Model m2;
            for (auto &kv : offset)
                m2.st.seq[kv.first] = kv.second;
            evaluate(m2);
            model = m2;
            v.probes["sequence_numbers_do_not_start_at_0"] = 1;
        }
    }

    // compare expected and actual deliveries, in order
    {
        std::map<int, std::map<int, std::string>> tags; // pretty node -> producer -> tag
        std::set<int> relaxed_nodes;
        size_t n = std::min(model.out.size(), actual.size());
        for (size_t i = 0; i < n && v.ok; i++) {
            const Delivery &x = model.out[i];
            const Act &a = actual[i];
            if (x.sink != a.sink || x.cid != a.cid) {
                // classify: lost / duplicated / reordered
                int cnt_exp = 0, cnt_act = 0;
                for (auto &d : model.out)
                    if (d.sink == a.sink && d.cid == a.cid)
                        cnt_exp++;
                for (auto &d : actual)
                    if (d.sink == a.sink && d.cid == a.cid)
                        cnt_act++;
                std::string cls = cnt_act > cnt_exp ? "duplicate" : (cnt_act < cnt_exp ? "lost" : "reordered");
                int cx = 0, ca = 0;
                for (auto &d : model.out)
                    if (d.sink == x.sink && d.cid == x.cid)
                        cx++;
                for (auto &d : actual)
                    if (d.sink == x.sink && d.cid == x.cid)
                        ca++;
                if (ca < cx)
                    cls = "lost";
                fail(v, cls,
                     "delivery #" + std::to_string(i) + ": expected sink " + std::to_string(x.sink) + " message "
                             + std::to_string(x.cid >> 16) + "." + std::to_string(x.cid & 0xffff) + ", got sink "
                             + std::to_string(a.sink) + " message " + std::to_string(a.cid >> 16) + "."
                             + std::to_string(a.cid & 0xffff));
                break;
            }
            std::string field;
            std::string got = a.c.formatted ? a.c.fmt : a.c.message;
            bool exact = x.formatted == a.c.formatted && match_with_field(x.text, 0, got, 0, &field);
            if (!exact && x.formatted == a.c.formatted && x.pretty_node >= 0
                && match_pretty_relaxed(x.text, got, &field)) {
                // the pretty formatter's layout differs from the reference rendering, the message is intact
                // and in place: not a violation (no property fixes that layout)
                v.probes["pretty_layout_differs_from_reference"]++;
                relaxed_nodes.insert(x.pretty_node); // thread tags cannot be told from an unknown layout: no tag obligations
                exact = true;
            }
            if (!exact) {
                fail(v, "wrong-text",
                     "sink " + std::to_string(x.sink) + " message " + std::to_string(x.cid >> 16) + "."
                             + std::to_string(x.cid & 0xffff) + ": expected '" + clip(x.text) + "' got '" + clip(got)
                             + "'");
                break;
            }
            if (x.attrs != a.c.attrs) {
                fail(v, "wrong-attrs",
                     "sink " + std::to_string(x.sink) + " message " + std::to_string(x.cid >> 16) + "."
                             + std::to_string(x.cid & 0xffff) + ": expected attributes '" + clip(x.attrs) + "' got '"
                             + clip(a.c.attrs) + "'");
                break;
            }
            // (messages logged by a logger thread - producer 62 - come from a different thread in every
            // move/reset cycle; Qt's own messages have no producer: no tag obligations for either)
            if (x.pretty_node >= 0 && (x.cid >> 16) != kNestedProducer && x.cid >= 0 && !relaxed_nodes.count(x.pretty_node)) {
                std::string tag = (field.empty() || field[0] == ' ') ? "0" : field;
                auto &m = tags[x.pretty_node];
                int prod = x.cid >> 16;
                auto it = m.find(prod);
                if (it == m.end())
                    m[prod] = tag;
                else if (it->second != tag)
                    fail(v, "pretty-thread-tags",
                         "thread tag of producer " + std::to_string(prod) + " changed from " + it->second + " to "
                                 + tag);
            }
        }
        if (v.ok && model.out.size() != actual.size() && complete) {
            if (actual.size() < model.out.size()) {
                const Delivery &x = model.out[actual.size()];
                fail(v, "lost",
                     "expected " + std::to_string(model.out.size()) + " deliveries, got "
                             + std::to_string(actual.size()) + "; first missing: sink " + std::to_string(x.sink)
                             + " message " + std::to_string(x.cid >> 16) + "." + std::to_string(x.cid & 0xffff));
            } else {
                const Act &a = actual[model.out.size()];
                fail(v, "duplicate",
                     "unexpected extra delivery: sink " + std::to_string(a.sink) + " message "
                             + std::to_string(a.cid >> 16) + "." + std::to_string(a.cid & 0xffff));
            }
        }
        // thread tags must differ between producers that were alive at the same time
        for (auto &pn : tags)
            if (!relaxed_nodes.count(pn.first))
            for (auto a = pn.second.begin(); a != pn.second.end(); ++a)
                for (auto b = std::next(a); b != pn.second.end(); ++b) {
                    auto la = life[a->first], lb = life[b->first];
                    bool overlap = la.first < lb.second && lb.first < la.second;
                    if (overlap && a->second == b->second)
                        fail(v, "pretty-thread-tags",
                             "producers " + std::to_string(a->first) + " and " + std::to_string(b->first)
                                     + " were alive at the same time but share thread tag " + a->second);
                }
    }

    // ---- exactly once: every returned call entered and left the pipeline once ----------
    if (complete)
        for (auto &kv : calls) {
            Call &c = kv.second;
            if (c.invoke < 0)
                continue;
            if (c.ret >= 0 && c.n_entry == 0) {
                // No obligation (a) for a call made while the handler object was being destroyed
                // (destructor / exit path already begun: the Logger has withdrawn itself from Qt and
                // its own mutex is gone - such a message is not accepted), (b) for a call queued for a
                // logger thread that no completed stop followed (nothing says when it is delivered).
                bool during_destruction = false, stop_followed = false, async_at_return = false;
                for (auto &w : stops) {
                    if ((w.path == 3 || w.path == 4) && c.invoke > w.begin)
                        during_destruction = true;
                    if (w.end >= 0 && w.end > c.ret)
                        stop_followed = true;
                }
                {
                    long last_move = -1, last_stop_end = -1;
                    for (auto &wt : worker_tids)
                        if (wt.first < c.ret)
                            last_move = std::max(last_move, wt.first);
                    for (auto &w : stops)
                        if (w.end >= 0 && w.end < c.ret)
                            last_stop_end = std::max(last_stop_end, w.end);
                    async_at_return = last_move > last_stop_end;
                }
                if (during_destruction || (async_at_return && !stop_followed))
                    continue;
                fail(v, "lost",
                     "message " + clip(c.text, 40) + " (call returned) never reached the pipeline");
            }
            if (c.n_entry > 0 && c.n_exit != c.n_entry)
                fail(v, "lost", "message " + clip(c.text, 40) + " entered the pipeline but never left it");
        }

    // ---- order: per producer, and real-time precedence ------------------------------------
    {
        std::map<int, int> last_idx;
        long max_ret_before = -1; // running check for real-time order
        (void)max_ret_before;
        std::vector<const Call *> ent;
        for (long idx : entry_order) {
            auto it = calls.find((int)shm->events[idx].a);
            if (it != calls.end() && it->second.entry == idx)
                ent.push_back(&it->second);
        }
        for (const Call *c : ent) {
            auto it = last_idx.find(c->producer);
            if (it != last_idx.end() && it->second > c->opidx)
                fail(v, "reordered",
                     "producer " + std::to_string(c->producer) + ": message #" + std::to_string(c->opidx)
                             + " entered the pipeline after its later message #" + std::to_string(it->second));
            last_idx[c->producer] = std::max(it == last_idx.end() ? -1 : it->second, c->opidx);
        }
        // a call that returned before another was invoked must enter first
        for (size_t i = 0; i < ent.size() && v.ok; i++)
            for (size_t j = i + 1; j < ent.size(); j++)
                if (ent[j]->ret >= 0 && ent[i]->invoke >= 0 && ent[j]->ret < ent[i]->invoke) {
                    fail(v, "reordered",
                         "message " + clip(ent[j]->text, 30) + " was logged (call returned) before "
                                 + clip(ent[i]->text, 30) + " was begun, but entered the pipeline after it");
                    break;
                }
    }

    // ---- probes common ----------------------------------------------------------------------
    v.probes["futex_blocked"] = shm->counters[sim::C_FUTEX_WAIT];
    // ---- signal sinks: the receiver object in the main thread gets every delivered message exactly once,
    //      unchanged, and in the order in which each thread emitted them
    {
        std::set<int> sigs;
        std::function<void(const Node &)> walk = [&](const Node &n) {
            if (n.kind == "rec" && n.b == 1)
                sigs.insert(n.a);
            for (auto &k : n.kids)
                walk(k);
        };
        walk(plan.root);
        auto call_name = [&](int cid) {
            auto it = calls.find(cid);
            return it == calls.end() ? "#" + std::to_string(cid) : clip(it->second.text, 40);
        };
        bool pumped = false;
        struct Rx
        {
            int sink, cid;
            long idx;
        };
        std::vector<Rx> rx;
        for (uint32_t i = 0; i < N; i++) {
            const sim::Event &e = shm->events[i];
            if (e.kind == E_SIGNAL_RX)
                rx.push_back({ (int)e.a, (int)e.b, (long)i });
            else if (e.kind == E_PUMPED)
                pumped = true;
        }
        int checked = 0;
        if (!sigs.empty() && pumped && v.ok) {
            for (int sk : sigs) {
                std::map<int, std::vector<long>> del, got; // cid -> event indices
                for (auto &a : actual)
                    if (a.sink == sk)
                        del[a.cid].push_back(a.idx);
                for (auto &r : rx)
                    if (r.sink == sk)
                        got[r.cid].push_back(r.idx);
                for (auto &kv : del) {
                    size_t n = got.count(kv.first) ? got[kv.first].size() : 0;
                    checked++;
                    if (n < kv.second.size())
                        fail(v, "signal-lost",
                             "signal sink " + std::to_string(sk) + " emitted message " + call_name(kv.first) + " "
                                     + std::to_string(kv.second.size()) + " time(s) but the receiver in the main thread got it "
                                     + std::to_string(n) + " time(s) after all queued signals were delivered");
                    else if (n > kv.second.size())
                        fail(v, "signal-duplicate",
                             "the receiver of signal sink " + std::to_string(sk) + " got message " + call_name(kv.first) + " "
                                     + std::to_string(n) + " times, emitted " + std::to_string(kv.second.size()) + " time(s)");
                    else if (kv.first >= 0 && n == 1
                             && sim::ev_str(shm, shm->events[kv.second[0]]) != sim::ev_str(shm, shm->events[got[kv.first][0]]))
                        fail(v, "signal-content", "the receiver of signal sink " + std::to_string(sk) + " got message " + call_name(kv.first)
                                     + " with another content than the sink emitted");
                }
                for (auto &kv : got)
                    if (!del.count(kv.first))
                        fail(v, "signal-phantom", "the receiver of signal sink " + std::to_string(sk) + " got message "
                                     + call_name(kv.first) + ", which the sink never emitted");
                // order per emitting thread
                std::map<int, long> last_rx; // emitting thread -> index of the last reception
                for (auto &a : actual) {
                    if (a.sink != sk || a.cid < 0 || !got.count(a.cid) || got[a.cid].size() != 1)
                        continue;
                    long at = got[a.cid][0];
                    auto it = last_rx.find(a.tid);
                    if (it != last_rx.end() && it->second > at && v.ok)
                        fail(v, "signal-reordered", "the receiver of signal sink " + std::to_string(sk) + " got message " + call_name(a.cid)
                                     + " before an earlier message emitted by the same thread");
                    last_rx[a.tid] = at;
                }
            }
        }
        v.probes["signal_sink_receptions_checked"] = checked;
    }

    v.probes["deliveries"] = (int)actual.size();
    v.probes["entries"] = (int)entry_order.size();
    v.probes["messages_logged_by_qt_itself"] = foreign_msgs;

    // ---- asynchronous placement (C03, and async phases of C04) ------------------------------
    // A window [move end, stop end) with worker tid W: events of calls processed by W.
    auto worker_at = [&](long idx) {
        int w = -1;
        for (auto &wt : worker_tids)
            if (wt.first <= idx)
                w = wt.second;
        return w;
    };

    if (plan.prop == "C03") {
        int wtid = worker_tids.empty() ? -1 : worker_tids[0].second;
        bool plan_moves = false;
        for (auto &o : plan.main_ops)
            if (o.kind == "move")
                plan_moves = true;
        if (wtid < 0 && plan_moves && !calls.empty())
            fail(v, "not-async", "moveToOwnThread() did not start a worker thread");
        // (a plan without a move - only a minimiser can make one - has no logger thread to judge against)
        long first_stop = -1;
        for (auto &w : stops)
            if (first_stop < 0 || w.begin < first_stop)
                first_stop = w.begin;
        for (uint32_t i = 0; i < N && v.ok && wtid >= 0; i++) {
            const sim::Event &e = shm->events[i];
            // (once a stop has begun, the stopping thread may deliver what is left - that is C04's subject)
            if (first_stop >= 0 && (long)i > first_stop)
                break;
            if (is_pipeline_event(e.kind) && e.tid != wtid)
                fail(v, "wrong-thread",
                     "handler work for message id " + std::to_string(pipeline_event_cid(e)) + " ran on thread T"
                             + std::to_string(e.tid) + " (" + (e.tid == 0 ? "main" : "a producer")
                             + "), not on the logger thread T" + std::to_string(wtid));
        }
        // a flush of the sinks is handler work too
        int flushes = 0;
        for (uint32_t i = 0; i < N && v.ok; i++) {
            const sim::Event &e = shm->events[i];
            if (e.kind != E_FLUSH_IN)
                continue;
            flushes++;
            long stop_end = -1;
            for (auto &w : stops)
                if (w.end >= 0)
                    stop_end = std::max(stop_end, w.end);
            bool async_now = wtid >= 0 && (stop_end < 0 || (long)i < stop_end);
            if (async_now && e.tid != wtid)
                fail(v, "wrong-thread",
                     "the sinks were flushed on thread T" + std::to_string(e.tid)
                             + " (a logging thread) while the logger thread T" + std::to_string(wtid) + " owns them");
        }
        v.probes["sink_flushes_observed"] = flushes;
        int gate_waits = 0, ret_before_entry = 0;
        for (uint32_t i = 0; i < N; i++)
            if (shm->events[i].kind == E_GATE_WAIT)
                gate_waits++;
        for (auto &kv : calls)
            if (kv.second.ret >= 0 && kv.second.entry > kv.second.ret)
                ret_before_entry++;
        v.probes["gate_blocked_worker"] = gate_waits;
        v.probes["call_returned_before_processing"] = ret_before_entry;
        v.probes["clock_jumps"] = shm->counters[sim::C_CLOCK_JUMP];
    }

    if (plan.prop == "C04") {
        int backlog_stops = 0, during = 0, after_sync = 0;
        for (auto &w : stops) {
            if (w.end < 0)
                continue; // reported above
            int backlog = 0;
            for (auto &kv : calls) {
                Call &c = kv.second;
                if (c.ret >= 0 && c.ret < w.begin) {
                    if (c.exit < 0 || c.exit > w.begin)
                        backlog++;
                    // (a) drain: accepted before the stop => delivered when the stop returns
                    if (c.exit < 0 || c.exit > w.end)
                        fail(v, "not-drained",
                             "message " + clip(c.text, 40) + " was accepted before the stop (path "
                                     + std::to_string(w.path) + ") but was "
                                     + (c.exit < 0 ? "never delivered" : "delivered only after the stop returned"),
                             std::string("not-drained/") + (w.app_alive ? "app-alive" : "no-qcoreapplication"));
                }
                if (c.invoke > w.begin && c.invoke < w.end)
                    during++;
            }
            if (backlog)
                backlog_stops++;
        }
        // calls invoked after a stop returned and before the next move created a worker run synchronously
        for (auto &kv : calls) {
            Call &c = kv.second;
            if (c.invoke < 0 || c.ret < 0)
                continue;
            // find the last stop end / move before the invoke
            long last_stop_end = -1, last_move = -1;
            for (auto &w : stops)
                if (w.end >= 0 && w.end < c.invoke)
                    last_stop_end = std::max(last_stop_end, w.end);
            for (auto &wt : worker_tids)
                if (wt.first < c.ret)
                    last_move = std::max(last_move, wt.first);
            bool sync_phase = last_stop_end >= 0 && last_move < last_stop_end;
            bool never_async = worker_tids.empty() || c.ret < worker_tids[0].first;
            if (sync_phase || never_async) {
                after_sync += sync_phase ? 1 : 0;
                // "synchronously": delivered by the time the call returns (which thread runs the handlers
                // is not laid down - a lock holder may deliver for a waiting caller)
                if (c.n_entry == 0 || c.exit < 0 || c.exit > c.ret)
                    fail(v, "not-synchronous",
                         "message " + clip(c.text, 40) + " was logged while no worker existed but was not "
                                 "delivered before the call returned");
            }
        }
        // (d) no handler work on a stopped worker, none after the handler is gone
        for (uint32_t i = 0; i < N && v.ok; i++) {
            const sim::Event &e = shm->events[i];
            if (!is_pipeline_event(e.kind))
                continue;
            if (handler_gone >= 0 && (long)i > handler_gone)
                fail(v, "use-after-destroy", "handler work after the handler object was destroyed");
            for (auto &w : stops) {
                if (w.end < 0 || (long)i < w.end)
                    continue;
                int wt = worker_at(w.begin);
                if (wt >= 0 && e.tid == wt)
                    fail(v, "dead-worker",
                         "handler work on worker thread T" + std::to_string(wt) + " after its stop had returned");
            }
        }
        v.probes["stops"] = (int)stops.size();
        v.probes["stops_with_backlog"] = backlog_stops;
        v.probes["logged_during_stop"] = during;
        v.probes["sync_after_stop"] = after_sync;
        v.probes["cycles"] = (int)worker_tids.size();
        int noapp = 0;
        for (auto &w : stops)
            if (!w.app_alive)
                noapp++;
        v.probes["stops_without_app"] = noapp;
    }

    if (plan.prop == "C02") {
        int contended = shm->counters[sim::C_FUTEX_WAIT];
        v.probes["lock_contention"] = contended;
    }

    return v;
}

} // namespace tsim
