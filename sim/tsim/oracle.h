#pragma once
#include <map>
#include <string>

#include "plan.h"
#include "sim.h"

namespace tsim {

struct ChildExit
{
    bool signaled = false;
    int sig = 0;
    int code = 0;
};

struct Verdict
{
    bool ok = true;
    bool machinery = false; // exit 2 material: never a verdict about qtlogger
    std::string cls; // violation class
    std::string msg;
    std::string signature; // class + distinguishing facts (known-findings key)
    std::map<std::string, int> probes; // reach probes for the evidence file
};

Verdict judge(const Plan &plan, const sim::Shm *shm, const ChildExit &ex, const std::string &rundir);

} // namespace tsim
