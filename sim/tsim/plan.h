// Plans for the thread/time/process-death simulator (tsim).
// A plan is an explicit document: configuration, pipeline tree, per-thread
// operation lists and attached faults.  One seed generates one plan; a plan
// plus its schedule seed (or explicit choice list) is one exactly repeatable run.
#pragma once

#include <cstdint>
#include <string>
#include <vector>

#include <QJsonArray>
#include <QJsonObject>

#include "sim.h"

namespace tsim {

// ---- menus shared by generator, harness and oracle ----------------------------
extern const char *const kCategories[]; // index 0 = "default"
constexpr int kNumCategories = 5;
extern const char *const kRegexMenu[];
constexpr int kNumRegex = 4;
extern const char *const kCatRuleMenu[];
constexpr int kNumCatRules = 5;
extern const char *const kPatternMenu[];
constexpr int kNumPatterns = 7;
extern const char *const kFiles[];
constexpr int kNumFiles = 6; // index 0 = null pointer
extern const char *const kFunctions[];
constexpr int kNumFunctions = 4; // index 0 = null pointer

struct Node
{
    std::string kind; // pipe seq level dup regex cat pretty pattern fnattr fnfilter fnfmt yielder rec gate
    int a = 0, b = 0;
    int id = 0; // unique per tree (assigned by generator, stable under deletion)
    std::vector<Node> kids;
};

struct Op
{
    std::string kind;
    int a = 0, b = 0, c = 0, d = 0, e = 0;
    std::string s;
};
// Op kinds
//  log        a=QtMsgType b=category idx c=file idx | (function idx<<8) | flags<<16 d=line e=padding bytes s=payload text
//             flags: 1 = pre-set formatted text, 2 = pre-set attribute (bare target only)
//  fatal      like log, type QtFatalMsg
//  sleep      a=microseconds (simulated)
//  yield
//  spawn      a=producer index
//  join       a=producer index (-1 = all)
//  move       moveToOwnThread
//  reset      resetOwnThread
//  exec_quit  post quit, run app.exec()
//  destroy    delete the handler/logger
//  create_app / destroy_app
//  exit       call exit(0) (static destructors under the scheduler)
//  open_gate  a=gate id
//  clock_jump a=milliseconds (signed)
//  install / restore / foreign a=index / probe   (C19 install/restore clause)
//  flush      flush sinks

struct Plan
{
    std::string prop;
    std::string tier = "quick";
    uint64_t seed = 0; // generating seed
    std::string flavour; // informational

    // schedule
    uint64_t sched_seed = 1;
    int strategy = 0;
    int pct_depth = 2;
    int yield_pct = 100;
    int spurious_pm = 0; // per mille
    int time_adv_pct = 20;
    int clock_yield_pct = 0;
    int io_yield_pct = 0;
    int instr_yield_pp10k = 0; // function-entry decision points inside the library (C02 slice "two pipelines")
    int max_decisions = 20000;
    int stall_tid = -1, stall_from = 0, stall_len = 0;
    std::vector<uint8_t> choices;
    bool strict = false;
    bool sticky_after = false;

    // system under simulation
    std::string target = "logger"; // logger | bare | singleton
    bool app = false; // QCoreApplication exists at start
    bool poison = true; // caller buffers overwritten + freed after each call
    Node root; // kind "pipe"
    std::vector<Op> main_ops;
    std::vector<std::vector<Op>> producers; // index 1.. (producer 0 is the main thread)

    // C11 / C19
    QJsonObject cfg;

    std::string expect_class; // replay files: the violation class to reproduce
};

QJsonObject to_json(const Plan &p);
bool from_json(const QJsonObject &o, Plan &p, std::string *err);
std::string to_json_string(const Plan &p, bool compact = true);

Plan generate(const std::string &prop, const std::string &tier, uint64_t seed);

inline int call_id(int producer, int opidx)
{
    return (producer << 16) | opidx;
}

} // namespace tsim
