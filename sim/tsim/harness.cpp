// Child-side executor of tsim plans: builds the system under simulation from
// the plan, runs it under the scheduler, records observations as events.
#include "harness.h"

#include <atomic>
#include <cerrno>
#include <cstdio>
#include <cstdlib>
#include <cstring>
#include <execinfo.h>
#include <fcntl.h>
#include <signal.h>
#include <thread>
#include <unistd.h>

#include <QCoreApplication>
#include <QDateTime>
#include <QDir>
#include <QFile>
#include <QLoggingCategory>
#include <QRegularExpression>
#include <QThread>
#include <QTimer>

#include "events.h"
#include "harness_int.h"
#include <functional>
#include "qtlogger.h"

using namespace QtLogger;

namespace tsim {

Ctx *C = nullptr;


// The identity of a plan message travels in the line number of its source location (call id + 1; 0 =
// not one of the plan's messages, e.g. a warning logged by Qt itself), so that message *texts* are free
// to repeat - the duplicate filter and other text-dependent handlers then have real work.
int parse_call_id(const LogMessage &m)
{
    return m.line() > 0 ? m.line() - 1 : -1;
}

void put_cstr(QByteArray &out, const char *s)
{
    if (!s)
        out += "\x01N";
    else
        out += s;
    out += '\x1f';
}

QByteArray content_of(const LogMessage &m, int cid)
{
    QByteArray out;
    out.reserve(256);
    out += QByteArray::number((int)m.type());
    out += '\x1f';
    out += QByteArray::number(m.line());
    out += '\x1f';
    put_cstr(out, m.file());
    put_cstr(out, m.function());
    put_cstr(out, m.category());
    out += m.message().toUtf8();
    out += '\x1f';
    out += QByteArray::number(m.time().toMSecsSinceEpoch());
    out += '\x1f';
    out += QByteArray::number((qlonglong)std::chrono::duration_cast<std::chrono::nanoseconds>(
                                      m.steadyTime().time_since_epoch())
                                      .count());
    out += '\x1f';
    // thread: does the recorded thread id equal the id of the thread that made the call?
    int producer = cid >= 0 ? (cid >> 16) : -1;
    int thread_ok = -1;
    if (producer >= 0 && producer < 64 && C->producer_tid[producer] >= 0)
        thread_ok = (m.threadId() == (quint64)C->qtid[C->producer_tid[producer]]) ? 1 : 0;
    out += QByteArray::number(thread_ok);
    out += '\x1f';
    out += m.isFormatted() ? '1' : '0';
    out += '\x1f';
    out += m.formattedMessage().toUtf8();
    out += '\x1f';
    const auto attrs = m.attributes();
    QStringList keys = attrs.keys();
    keys.sort();
    bool first = true;
    for (const auto &k : keys) {
        if (!first)
            out += '\x1e';
        first = false;
        out += k.toUtf8();
        out += '=';
        out += attrs.value(k).toString().toUtf8();
    }
    return out;
}

void note_thread()
{
    int s = sim::self();
    if (s >= 0 && s < 64 && C->qtid[s] == 0)
        C->qtid[s] = reinterpret_cast<quintptr>(QThread::currentThreadId());
}

class RecSink : public Sink
{
public:
    explicit RecSink(int id) : m_id(id) { }
    void send(const LogMessage &m) override
    {
        note_thread();
        int cid = parse_call_id(m);
        QByteArray c = content_of(m, cid);
        sim::ev(E_DELIVER, m_id, cid, 0, c.constData(), (size_t)c.size());
    }

private:
    int m_id;
};

class GateSink : public Sink
{
public:
    explicit GateSink(int id) : m_id(id) { }
    void send(const LogMessage &m) override
    {
        int cid = parse_call_id(m);
        // only a logger thread gets "stuck in I/O"; a synchronous caller passes
        int s = sim::self();
        if (s < 0 || s >= 64 || !C->is_worker[s])
            return;
        if (!C->gates[m_id].open)
            sim::ev(E_GATE_WAIT, m_id, cid);
        sim::gate_wait(&C->gates[m_id]);
    }

private:
    int m_id;
};

// A sink that shows when and on which thread its send() and flush() run; both contain a decision
// point, so that anything allowed to run concurrently with them does
class ProbeSink : public Sink
{
public:
    explicit ProbeSink(int id) : m_id(id) { }
    void send(const LogMessage &m) override
    {
        note_thread();
        int cid = parse_call_id(m);
        sim::ev(E_PROBE_IN, m_id, cid);
        sim::yield("probe-send");
        sim::ev(E_PROBE_OUT, m_id, cid);
    }
    bool flush() override
    {
        sim::ev(E_FLUSH_IN, m_id);
        sim::yield("probe-flush");
        sim::ev(E_FLUSH_OUT, m_id);
        return true;
    }

private:
    int m_id;
};

HandlerPtr make_probe_sink(int id)
{
    return QSharedPointer<ProbeSink>::create(id);
}

HandlerPtr build(const Node &n)
{
    const std::string &k = n.kind;
    if (k == "pipe") {
        auto p = PipelinePtr::create(n.a != 0);
        for (auto &kid : n.kids)
            p->append(build(kid));
        return p;
    }
    if (k == "seq") {
        auto &s = C->seqs[n.a];
        if (!s)
            s = SeqNumberAttrPtr::create(n.a == 0 ? QStringLiteral("seq") : QStringLiteral("seq2"));
        return s;
    }
    if (k == "level")
        return LevelFilterPtr::create((QtMsgType)n.a);
    if (k == "dup")
        return DuplicateFilterPtr::create();
    if (k == "regex")
        return RegExpFilterPtr::create(QString::fromUtf8(kRegexMenu[n.a % kNumRegex]));
    if (k == "cat")
        return CategoryFilterPtr::create(QString::fromUtf8(kCatRuleMenu[n.a % kNumCatRules]));
    if (k == "pretty")
        return PrettyFormatterPtr::create(false, n.a);
    if (k == "pattern")
        return PatternFormatterPtr::create(QString::fromUtf8(kPatternMenu[n.a % kNumPatterns]));
    if (k == "fnattr") {
        int key = n.a, val = n.b;
        return FunctionAttrHandlerPtr::create([key, val](const LogMessage &) {
            return QVariantHash { { QStringLiteral("k%1").arg(key), val } };
        });
    }
    if (k == "fnfilter") {
        int m = n.a + 2;
        return FunctionFilterPtr::create([m](const LogMessage &lm) {
            int cid = parse_call_id(lm);
            return ((cid & 0xffff) % m) != 0;
        });
    }
    if (k == "fnfmt") {
        int id = n.id;
        return FunctionFormatterPtr::create([id](const LogMessage &lm) {
            return QStringLiteral("F%1<%2>").arg(id).arg(lm.formattedMessage());
        });
    }
    if (k == "yielder") {
        int id = n.id, yields = n.a, sleep_us = n.b;
        return FunctionHandlerPtr::create([id, yields, sleep_us](LogMessage &lm) {
            int cid = parse_call_id(lm);
            sim::ev(E_H_IN, id, cid);
            for (int i = 0; i < yields; i++)
                sim::yield("handler");
            if (sleep_us > 0)
                sim::sleep_ns((int64_t)sleep_us * sim::US);
            sim::ev(E_H_OUT, id, cid);
            return true;
        });
    }
    if (k == "relog") {
        // a handler that itself logs, but only when it runs on a logger thread (re-entrant logging
        // from a synchronous caller is not supported by the library: its handler mutex is not recursive)
        int m = n.a < 2 ? 2 : n.a;
        return FunctionHandlerPtr::create([m](LogMessage &lm) {
            int cid = parse_call_id(lm);
            int s = sim::self();
            if (cid < 0 || (cid >> 16) == kNestedProducer || s < 0 || s >= 64 || !C->is_worker[s])
                return true;
            if (((cid & 0xffff) + (cid >> 16)) % m != 0)
                return true;
            // logging through an object that is being destroyed is outside every property
            // (DESIGN 4 C04: producers are joined before the destructor paths): not done here either
            if (C->destroying)
                return true;
            C->nesting++;
            C->producer_tid[kNestedProducer] = s;
            do_log(kNestedProducer, C->nested++, nested_op(), false);
            C->nesting--;
            return true;
        });
    }
    if (k == "slowonce") {
        // "stuck I/O": the first message that reaches this handler on a logger thread takes seconds
        int id = n.id % 64, ms = n.b;
        bool any_thread = n.a != 0; // a=1: also a synchronous caller gets stuck (others wait for the lock meanwhile)
        return FunctionHandlerPtr::create([id, ms, any_thread](LogMessage &lm) {
            int s = sim::self();
            if (s < 0 || s >= 64 || (!any_thread && !C->is_worker[s]) || C->slow_done[id])
                return true;
            C->slow_done[id] = true;
            int cid = parse_call_id(lm);
            sim::ev(E_H_IN, id, cid);
            sim::sleep_ns((int64_t)ms * sim::MS);
            sim::ev(E_H_OUT, id, cid);
            return true;
        });
    }
    if (k == "probe")
        return make_probe_sink(n.id);
    if (k == "rec" && n.b == 1 && C->receiver) {
        // the same recorder as a SignalSink: a direct slot records the delivery inside the pipeline, the
        // receiver object (main thread) gets the signal too - queued when emitted on another thread
        auto ss = SignalSinkPtr::create();
        int id = n.a;
        QObject::connect(ss.data(), &SignalSink::message, [id](const QtLogger::LogMessage &m) {
            note_thread();
            int cid = parse_call_id(m);
            QByteArray c = content_of(m, cid);
            sim::ev(E_DELIVER, id, cid, 0, c.constData(), (size_t)c.size());
        });
        QObject::connect(ss.data(), &SignalSink::message, C->receiver, [id](const QtLogger::LogMessage &m) {
            int cid = parse_call_id(m);
            QByteArray c = content_of(m, cid);
            sim::ev(E_SIGNAL_RX, id, cid, 0, c.constData(), (size_t)c.size());
        });
        return ss;
    }
    if (k == "rec")
        return QSharedPointer<RecSink>::create(n.a);
    if (k == "gate")
        return QSharedPointer<GateSink>::create(n.a % 4);
    return HandlerPtr();
}

void build_pipeline(Pipeline *target, const Node &root)
{
    target->append(FunctionHandlerPtr::create([](LogMessage &lm) {
        note_thread();
        int cid = parse_call_id(lm);
        int before = C->inflight.fetch_add(1);
        QByteArray c = content_of(lm, cid);
        sim::ev(E_ENTRY, cid, before, 0, c.constData(), (size_t)c.size());
        return true;
    }));
    target->append(build(root));
    target->append(FunctionHandlerPtr::create([](LogMessage &lm) {
        int cid = parse_call_id(lm);
        C->inflight.fetch_sub(1);
        sim::ev(E_EXIT, cid);
        return true;
    }));
}

const Op &nested_op()
{
    static Op op;
    if (op.kind.empty()) {
        op.kind = "log";
        op.a = 1; // warning
        op.b = 0; // default category
        op.c = 1 | (1 << 8);
        op.d = 7;
        op.s = "nested";
    }
    return op;
}

char *heap_dup(const char *s)
{
    if (!s)
        return nullptr;
    size_t n = strlen(s);
    char *p = (char *)malloc(n + 1);
    memcpy(p, s, n + 1);
    return p;
}
void poison_free(char *p, bool poison)
{
    if (!p)
        return;
    if (poison)
        memset(p, 'Z', strlen(p));
    free(p);
}

std::string reads_string()
{
    const sim::ClockReads &r = sim::clock_reads();
    std::string s = "w";
    for (int i = 0; i < r.n_wall; i++) {
        s += ' ';
        s += std::to_string((long long)r.wall[i]);
    }
    s += ";m";
    for (int i = 0; i < r.n_mono; i++) {
        s += ' ';
        s += std::to_string((long long)r.mono[i]);
    }
    return s;
}

void do_log(int producer, int opidx, const Op &op, bool fatal)
{
    const Plan &P = *C->plan;
    int cid = call_id(producer, opidx);
    int flags0 = op.c >> 16;
    QByteArray text = (flags0 & 4) ? QByteArray::fromStdString(op.s) // bare text: may equal other messages' texts
                                   : "m" + QByteArray::number(producer) + "." + QByteArray::number(opidx) + " "
                    + QByteArray::fromStdString(op.s);
    const int line = cid + 1;
    if (op.e > 0) {
        text += ' ';
        QByteArray pad(op.e, 'p');
        for (int i = 0; i < op.e; i += 64)
            pad[i] = char('A' + (i / 64) % 26);
        text += pad;
    }
    // every other call of a thread in a "poison" plan passes file and category in buffers the thread reuses
    // for all its calls (same address, other content - also content that merely extends the previous one);
    // the other calls use fresh heap strings that are overwritten and freed right after the call
    static thread_local char *tl_file = nullptr, *tl_cat = nullptr;
    const bool reuse = C->plan->poison && (opidx & 1);
    char *file = nullptr;
    if (reuse && kFiles[(op.c & 0xff) % kNumFiles]) {
        if (!tl_file)
            tl_file = (char *)malloc(96);
        snprintf(tl_file, 96, "%s", kFiles[(op.c & 0xff) % kNumFiles]);
        file = tl_file;
    } else
        file = heap_dup(kFiles[(op.c & 0xff) % kNumFiles]);
    char *func = heap_dup(kFunctions[((op.c >> 8) & 0xff) % kNumFunctions]);
    if (P.target == "dual") {
        // a signature of its own for every call: whatever the library remembers per signature keeps growing
        free(func);
        func = heap_dup(QStringLiteral("void Cls%1::fn%1(int)").arg(cid).toLatin1().constData());
    }
    char *cat = nullptr;
    if (reuse) {
        if (!tl_cat)
            tl_cat = (char *)malloc(96);
        snprintf(tl_cat, 96, "%s", kCategories[op.b % kNumCategories]);
        cat = tl_cat;
    } else
        cat = heap_dup(kCategories[op.b % kNumCategories]);
    int flags = op.c >> 16;
    QtMsgType type = fatal ? QtFatalMsg : (QtMsgType)op.a;
    bool poison = P.poison;

    if (fatal)
        sim::ev(E_FATAL_INVOKE, cid);
    sim::ev(E_INVOKE, cid, sim::wall_now());
    sim::clock_reads_begin();
    if (C->logger && P.target != "bare") {
        QMessageLogger ml(file, line, func, cat);
        switch (type) {
        case QtDebugMsg:
            ml.debug("%s", text.constData());
            break;
        case QtInfoMsg:
            ml.info("%s", text.constData());
            break;
        case QtWarningMsg:
            ml.warning("%s", text.constData());
            break;
        case QtCriticalMsg:
            ml.critical("%s", text.constData());
            break;
        case QtFatalMsg:
            ml.fatal("%s", text.constData());
            break;
        }
    } else if (C->oth) {
        QMessageLogContext mctx(file, line, func, cat);
        LogMessage lmsg(type, mctx, QString::fromUtf8(text));
        if (flags & 1)
            lmsg.setFormattedMessage(QStringLiteral("PRE<%1>").arg(cid));
        if (flags & 2)
            lmsg.setAttribute(QStringLiteral("pre"), cid);
        ((C->oth_b && (producer & 1)) ? C->oth_b : C->oth)->process(lmsg);
    }
    std::string rs = reads_string();
    sim::ev(E_RETURN, cid, sim::wall_now(), 0, rs);
    if (file == tl_file && file)
        memset(file, 'Y', strlen(file)); // reused buffer: overwritten, not freed
    else
        poison_free(file, poison);
    poison_free(func, poison);
    if (cat == tl_cat && cat)
        memset(cat, 'Y', strlen(cat));
    else
        poison_free(cat, poison);
}

void run_ops(int producer, const std::vector<Op> &ops);

void producer_main(int producer)
{
    note_thread();
    C->producer_tid[producer] = sim::self();
    char nm[16];
    snprintf(nm, sizeof nm, "p%d", producer);
    sim::set_thread_name(sim::self(), nm);
    sim::ev(E_PRODUCER, producer);
    run_ops(producer, C->plan->producers[producer - 1]);
    sim::ev(E_PRODUCER_DONE, producer);
}

void install_quit_begin_marker()
{
    QObject::connect(C->app, &QCoreApplication::aboutToQuit, [] {
        // (the library connects its stop to aboutToQuit only when an application object exists at the
        // moment the logger thread is started; otherwise quitting is no stop at all)
        if (C->oth && C->oth->ownThread() && C->quit_connected)
            sim::ev(E_STOP_BEGIN, C->cur_main_op, 2, 1);
    });
}

void run_ops(int producer, const std::vector<Op> &ops)
{
    for (size_t i = 0; i < ops.size(); i++) {
        const Op &op = ops[i];
        const std::string &k = op.kind;
        if (producer == 0)
            C->cur_main_op = (int)i;
        if (k == "send") {
            // C08 thread slice: this thread's own sink gets a record directly
            if (producer >= 1 && producer < 64 && C->own_sinks[producer]) {
                QByteArray text = "s" + QByteArray::number(producer) + "." + QByteArray::number((int)i) + " " + QByteArray::fromStdString(op.s);
                if (op.e > 0) {
                    QByteArray pad(op.e, 'q');
                    for (int x = 0; x < op.e; x += 61)
                        pad[x] = char('a' + (x / 61 + producer) % 26);
                    text += ' ';
                    text += pad;
                }
                QMessageLogContext mctx("s.cpp", 1, "void s()", "default");
                LogMessage lmsg(QtInfoMsg, mctx, QString::fromUtf8(text));
                C->own_sinks[producer]->send(lmsg);
            }
        } else if (k == "qtlog") {
            // through Qt's macros whatever the state of the logger (e.g. after it was destroyed: the
            // message handler is still installed and must drop the message, not touch a dead object)
            QByteArray text = "q" + QByteArray::number(producer) + "." + QByteArray::number((int)i) + " after-destroy";
            QMessageLogger("late.cpp", 0, "void late()", "default").warning("%s", text.constData());
        } else if (k == "log") {
            do_log(producer, (int)i, op, false);
        } else if (k == "fatal") {
            do_log(producer, (int)i, op, true);
        } else if (k == "sleep") {
            sim::sleep_ns((int64_t)op.a * sim::US);
        } else if (k == "yield") {
            sim::yield("op-yield");
        } else if (k == "post_quit") {
            if (C->app)
                QMetaObject::invokeMethod(C->app, "quit", Qt::QueuedConnection);
        } else if (producer != 0 && k != "move" && k != "reset") {
            continue; // the remaining ops are for the main thread only
        } else if (k == "spawn") {
            int p = op.a;
            if (p >= 1 && p <= (int)C->plan->producers.size() && !C->spawned[p]) {
                C->spawned[p] = true;
                C->threads[p] = std::thread(producer_main, p);
            }
        } else if (k == "join") {
            for (int p = 1; p < 64; p++)
                if (C->spawned[p] && (op.a < 0 || op.a == p) && C->threads[p].joinable())
                    C->threads[p].join();
        } else if (k == "move") {
            if (!C->oth)
                continue;
            int before = sim::thread_count();
            sim::ev(E_OP_BEGIN, (int)i);
            if (!C->oth->ownThread())
                C->quit_connected = QCoreApplication::instance() != nullptr;
            C->oth->moveToOwnThread();
            if (sim::thread_count() > before) {
                sim::set_thread_name(before, "worker");
                if (before < 64)
                    C->is_worker[before] = true;
                sim::ev(E_WORKER_TID, before);
            }
            sim::ev(E_ASYNC_STATE, C->oth->ownThreadIsRunning() ? 1 : 0);
            sim::ev(E_OP_END, (int)i);
        } else if (k == "reset") {
            if (!C->oth)
                continue;
            sim::ev(E_STOP_BEGIN, (int)i, 1, C->app ? 1 : 0);
            C->oth->resetOwnThread();
            sim::ev(E_STOP_END, (int)i, 1);
        } else if (k == "exec_wait") {
            // run the main event loop until some thread posts quit (family H6: stops from other threads)
            if (!C->app)
                continue;
            sim::ev(E_OP_BEGIN, (int)i);
            C->app->exec();
            sim::ev(E_STOP_END, (int)i, 2);
            sim::ev(E_OP_END, (int)i);
        } else if (k == "exec_quit") {
            if (!C->app)
                continue;
            QMetaObject::invokeMethod(C->app, "quit", Qt::QueuedConnection);
            sim::ev(E_OP_BEGIN, (int)i);
            C->app->exec();
            sim::ev(E_STOP_END, (int)i, 2);
            sim::ev(E_OP_END, (int)i);
        } else if (k == "destroy") {
            if (!C->oth || C->singleton)
                continue;
            C->destroying = true;
            while (C->nesting > 0)
                sim::yield("wait-nested-log");
            sim::ev(E_STOP_BEGIN, (int)i, 3, C->app ? 1 : 0);
            if (C->logger)
                delete C->logger;
            else
                delete C->oth;
            C->logger = nullptr;
            C->oth = nullptr;
            sim::ev(E_STOP_END, (int)i, 3);
            sim::ev(E_HANDLER_GONE);
        } else if (k == "create_app") {
            if (!C->app) {
                static int argc = 1;
                static char a0[] = "tsim";
                static char *argv[] = { a0, nullptr };
                C->app = new QCoreApplication(argc, argv);
                sim::ev(E_APP, 1);
                install_quit_begin_marker();
            }
        } else if (k == "destroy_app") {
            if (C->app) {
                delete C->app;
                C->app = nullptr;
                C->quit_connected = false; // the connection went with the application object
                sim::ev(E_APP, 0);
            }
        } else if (k == "exit") {
            C->destroying = true;
            while (C->nesting > 0)
                sim::yield("wait-nested-log");
            sim::ev(E_STOP_BEGIN, (int)i, 4, C->app ? 1 : 0);
            exit(0);
        } else if (k == "open_gate") {
            sim::gate_open(&C->gates[op.a % 4]);
        } else if (k == "clock_jump") {
            sim::wall_jump((int64_t)op.a * sim::MS);
        } else if (k == "flush") {
            if (C->oth)
                C->oth->flush();
        }
    }
}

void null_handler(QtMsgType, const QMessageLogContext &, const QString &) { }

void setup_c11(const Plan &P)
{
    QString mode = P.cfg["mode"].toString();
    QString path = QString::fromStdString(C->rundir) + "/app.log";
    int pre = P.cfg["preexisting"].toInt();
    if (pre > 0) {
        QFile f(path);
        if (f.open(QIODevice::WriteOnly)) {
            QByteArray line = "pre-existing line\n";
            QByteArray data;
            while (data.size() < pre)
                data += line;
            f.write(data);
            f.close();
            // written an hour before the run began, by the virtual clock
            sim::fs_stamp(path.toLocal8Bit().constData(), sim::wall_now() - 3600 * sim::SEC);
        }
    }
    int size = P.cfg["max_size"].toInt();
    int cnt = P.cfg["max_count"].toInt();
    RotatingFileSink::Options opts = RotatingFileSink::Options(P.cfg["options"].toInt());
    std::function<void()> late_step;
    if (mode == "fluent-multi") {
        QString apath = QString::fromStdString(C->rundir) + "/audit.log";
        int kind = P.cfg["audit_kind"].toInt(), arg = P.cfg["audit_arg"].toInt();
        QString container = P.cfg["audit_container"].toString();
        FilterPtr flt;
        if (kind == 0)
            flt = LevelFilterPtr::create((QtMsgType)arg);
        else if (kind == 1)
            flt = CategoryFilterPtr::create(QString::fromUtf8(kCatRuleMenu[arg % kNumCatRules]));
        else
            flt = RegExpFilterPtr::create(QString::fromUtf8(kRegexMenu[arg % kNumRegex]));
        FormatterPtr fmt = PatternFormatterPtr::create(QStringLiteral("%{message}"));
        SinkPtr asink;
        if (P.cfg["audit_rot"].toBool())
            asink = RotatingFileSinkPtr::create(apath, P.cfg["audit_size"].toInt(), 0, RotatingFileSink::None);
        else
            asink = FileSinkPtr::create(apath);
        // "late": the branch is attached without its sink, the complete logger is flushed once (an application
        // that flushes from a timer), and only then the file sink is added to the attached branch
        const bool late = P.cfg["audit_late"].toBool();
        if (container == "pipeline") {
            // a plain Pipeline object appended with operator<< (README style)
            auto sub = PipelinePtr::create(/* scoped */ true);
            sub->append(flt);
            sub->append(fmt);
            if (late)
                late_step = [sub, asink]() { sub->append(asink); };
            else
                sub->append(asink);
            *C->logger << sub;
        } else if (container == "sorted") {
            auto sub = SortedPipelinePtr::create(/* scoped */ true);
            if (late)
                late_step = [sub, asink]() { sub->appendSink(asink); };
            else
                sub->appendSink(asink);
            sub->setFormatter(fmt);
            sub->appendFilter(flt);
            *C->logger << sub;
        } else {
            SimplePipeline &sub = C->logger->pipeline();
            sub.append(flt);
            sub.append(fmt);
            sub.append(asink);
            sub.end();
        }
        C->logger->format(QStringLiteral("%{message}"));
        if (P.cfg["main_rot"].toBool())
            C->logger->sendToFile(path, size, cnt, opts);
        else
            C->logger->sendToFile(path);
        C->logger->installMessageHandler();
    } else if (mode.startsWith("fluent")) {
        if (P.cfg["pattern"].toInt() >= 0)
            C->logger->format(QStringLiteral("%{message}"));
        if (mode == "fluent-rot")
            C->logger->sendToFile(path, size, cnt, opts);
        else
            C->logger->sendToFile(path);
        C->logger->installMessageHandler();
    } else {
        if (mode == "oneline-rot")
            C->logger->configure(path, size, cnt, opts, false);
        else
            C->logger->configure(path, 0, 0, RotatingFileSink::Option::None, false);
    }
    // observes the flush on a fatal message: it must not run while another thread is inside a sink
    *C->logger << make_probe_sink(900);
    if (late_step) {
        C->logger->flush();
        late_step();
    }
}

void warm_up()
{
    // Touch the Qt globals that a log call needs so that they are initialised
    // once, in the zygote, and not under the scheduler in every run.
    auto prev = qInstallMessageHandler(null_handler);
    QMessageLogger("warm.cpp", 1, "void warm()", "default").debug("%s", "warm-up");
    QMessageLogger("warm.cpp", 1, "void warm()", "app.core").warning("%s", "warm-up");
    qInstallMessageHandler(prev);
    (void)QDateTime::currentDateTime().toString(QStringLiteral("dd.MM.yyyy hh:mm:ss"));
    (void)QDateTime::currentDateTime().date();
    QRegularExpression re(QStringLiteral("^a.*b$"));
    (void)re.match(QStringLiteral("axxb")).hasMatch();
    // (the LogMessage meta-type is deliberately NOT registered here: that is the library's business)
    (void)QDir::tempPath();
    (void)QThread::currentThread();
}

static void segv_backtrace(int sig)
{
    void *bt[64];
    int n = backtrace(bt, 64);
    const char msg[] = "=== fatal signal, backtrace:\n";
    if (write(2, msg, sizeof msg - 1) < 0) { }
    backtrace_symbols_fd(bt, n, 2);
    signal(sig, SIG_DFL);
    raise(sig);
}
void install_crash_reporter()
{
    signal(SIGSEGV, segv_backtrace);
    signal(SIGBUS, segv_backtrace);
    signal(SIGFPE, segv_backtrace);
}

sim::SchedConfig sched_config(const Plan &P)
{
    sim::SchedConfig sc;
    sc.seed = P.sched_seed;
    sc.strategy = P.strategy;
    sc.pct_depth = P.pct_depth;
    sc.yield_pct = P.yield_pct;
    sc.yield_mask_seed = P.sched_seed * 0x9E3779B97F4A7C15ull;
    sc.spurious_pct = P.spurious_pm;
    sc.time_adv_pct = P.time_adv_pct;
    sc.clock_yield_pct = P.clock_yield_pct;
    sc.io_yield_pct = P.io_yield_pct;
    sc.instr_yield_pp10k = P.instr_yield_pp10k;
    sc.max_decisions = (uint32_t)P.max_decisions;
    sc.stall_tid = P.stall_tid;
    sc.stall_from = (uint32_t)P.stall_from;
    sc.stall_len = (uint32_t)P.stall_len;
    sc.choices = P.choices;
    sc.strict_choices = P.strict;
    sc.sticky_after = P.sticky_after;
    return sc;
}

void run_child(const Plan &P, const std::string &rundir)
{
    if (P.prop == "C19")
        run_child_c19(P, rundir);

    C = new Ctx();
    C->plan = &P;
    C->rundir = rundir;
    for (int i = 0; i < 64; i++)
        C->producer_tid[i] = -1;

    alarm(20); // real-time watchdog: a baton holder that never reaches a scheduling point again
    sim::set_fake_pid(4242);
    sim::clock_set(1767225600ll * sim::SEC + 12 * 3600 * sim::SEC, 1000 * sim::SEC);

    if (!getenv("TSIM_KEEP_STDERR")) {
        int fd = ::open((rundir + "/stderr.txt").c_str(), O_WRONLY | O_CREAT | O_TRUNC, 0644);
        if (fd >= 0) {
            dup2(fd, 2);
            dup2(fd, 1);
            ::close(fd);
        }
    }

    install_crash_reporter();
    if (P.app) {
        static int argc = 1;
        static char a0[] = "tsim";
        static char *argv[] = { a0, nullptr };
        C->app = new QCoreApplication(argc, argv);
        install_quit_begin_marker();
    }

    {
        std::function<bool(const Node &)> has_sig = [&](const Node &n) {
            if (n.kind == "rec" && n.b == 1)
                return true;
            for (auto &k : n.kids)
                if (has_sig(k))
                    return true;
            return false;
        };
        if (C->app && has_sig(P.root))
            C->receiver = new QObject();
    }

    if (P.target == "singleton") {
        sim::install_exit_marker(); // registered before the singleton: runs after its destructor
        C->logger = Logger::instance();
        C->oth = C->logger;
        C->singleton = true;
    } else if (P.target == "bare") {
        C->oth = new Oth();
    } else if (P.target == "dual") {
        C->oth = new Oth();
        C->oth_b = new Oth();
    } else {
        C->logger = new Logger();
        C->oth = C->logger;
    }

    if (P.prop == "C08") {
        sim::FsConfig fc;
        fc.root = rundir;
        fc.granularity_ns = sim::MS;
        sim::fs_arm(fc);
        int n = P.cfg["sinks"].toInt();
        for (int i = 1; i <= n && i < 64; i++) {
            QString dir = QString::fromStdString(rundir) + "/s" + QString::number(i);
            QDir().mkpath(dir);
            C->own_sinks[i] = RotatingFileSinkPtr::create(dir + "/app.log", P.cfg["L"].toInt(), 0,
                                                         RotatingFileSink::Options(RotatingFileSink::Compression));
        }
    } else if (P.prop == "C11") {
        sim::FsConfig fc;
        fc.root = rundir;
        fc.granularity_ns = sim::MS;
        fc.record_writes = true;
        if (P.cfg["audit_enospc"].toBool()) {
            fc.fail_write_path = "audit.log";
            fc.fail_write_errno = ENOSPC;
        }
        sim::fs_arm(fc);
        setup_c11(P);
    } else if (P.target == "dual") {
        // two pipelines that share nothing in the harness: a formatter and a recording sink each
        auto pat = [](int id) {
            return id == 100 ? QStringLiteral("%{func}|%{message}") : QString::fromUtf8(kPatternMenu[id % kNumPatterns]);
        };
        C->oth->append(PatternFormatterPtr::create(pat(P.cfg["pattern_a"].toInt())));
        C->oth->append(QSharedPointer<RecSink>::create(0));
        C->oth_b->append(PatternFormatterPtr::create(pat(P.cfg["pattern_b"].toInt())));
        C->oth_b->append(QSharedPointer<RecSink>::create(1));
    } else {
        build_pipeline(C->oth, P.root);
        if (C->logger)
            C->logger->installMessageHandler();
    }

    sim::SchedConfig sc = sched_config(P);
    sim::begin(sc);
    C->producer_tid[0] = 0;
    note_thread();

    run_ops(0, P.main_ops);

    if (C->receiver && C->app) {
        // whatever is still queued for the receiver of the signal sinks is delivered now
        QCoreApplication::sendPostedEvents(C->receiver, QEvent::MetaCall);
        sim::ev(E_PUMPED);
    }

    for (int i = 0; i < 64; i++)
        C->own_sinks[i].reset(); // C08 thread slice: close (flush) the sinks
    sim::end();
    sim::finish_run(sim::ST_DONE);
}

} // namespace tsim
