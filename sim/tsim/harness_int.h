// Internal interface of the child-side harness, shared by harness.cpp and c19.cpp.
#pragma once

#include <atomic>
#include <map>
#include <string>
#include <thread>

#include <QCoreApplication>
#include <QSharedPointer>

#include "events.h"
#include "plan.h"
#include "qtlogger.h"

namespace tsim {

using Oth = QtLogger::OwnThreadHandler<QtLogger::SimplePipeline>;

struct Ctx
{
    const Plan *plan = nullptr;
    std::string rundir;
    QtLogger::Logger *logger = nullptr; // set for targets logger / singleton
    Oth *oth = nullptr; // always set while the handler is alive
    Oth *oth_b = nullptr; // C02 slice "two pipelines": the second pipeline (odd producers)
    bool singleton = false;
    QCoreApplication *app = nullptr;
    std::map<int, QSharedPointer<QtLogger::SeqNumberAttr>> seqs;
    sim::Gate gates[4];
    std::atomic<int> inflight { 0 };
    std::thread threads[64];
    bool spawned[64] = { false };
    int producer_tid[64]; // producer index -> logical thread
    quintptr qtid[64] = { 0 }; // logical thread -> Qt thread id
    int cur_main_op = -1;
    QObject *receiver = nullptr; // lives in the main thread; connected to the signal sinks of the plan
    bool quit_connected = false; // the running logger thread was started while an application object existed
    bool is_worker[64] = { false };
    int nested = 0; // messages logged by the logger thread itself (relog handler)
    int nesting = 0; // relog calls in progress
    QSharedPointer<QtLogger::Sink> own_sinks[64]; // C08 thread slice: one sink per producer
    bool destroying = false; // the handler object is being (or about to be) destroyed: nobody may log through it
    bool slow_done[64] = { false };
};
extern Ctx *C;

int parse_call_id(const QtLogger::LogMessage &m);
void note_thread();
void do_log(int producer, int opidx, const Op &op, bool fatal);
const Op &nested_op(); // the fixed message a relog handler logs (producer 62)
constexpr int kNestedProducer = 62;
void run_ops(int producer, const std::vector<Op> &ops);
void install_quit_begin_marker();
sim::SchedConfig sched_config(const Plan &P);

} // namespace tsim
