#include "plan.h"

#include <QJsonDocument>

namespace tsim {

const char *const kCategories[] = { "default", "app.core", "app.net", "lib", "a+b" };
// hand-written predicates for these live in oracle.cpp (regex_verdict / cat_verdict)
const char *const kRegexMenu[] = { "a$", "^m[0-9]+\\.[0-9]+ [a-g]", "xx", "" };
const char *const kCatRuleMenu[] = {
    "app.*=false",
    "*.debug=false",
    "app.*=false;app.core=true",
    "lib.warning=false\napp.net.info=false",
    "*=false\ndefault=true;a+b.critical=true;garbage line;lib=maybe",
};
const char *const kPatternMenu[] = {
    "%{message}",
    "[%{type}] %{message}",
    "%{category}|%{line}|%{message}",
    "%{file}:%{line} %{function} - %{message}",
    "<%{seq?}> %{message}%%",
    "%{type:>8}:%{message}",
    "%{if-warning}W: %{message}%{endif}", // nothing at all for the other types: an empty (not an unformatted) text
};
const char *const kFiles[] = { nullptr, "main.cpp", "/src/app/worker.cpp", "../lib/net.cpp", "main.c", "" };
const char *const kFunctions[] = { nullptr, "int main(int, char**)", "void Worker::run()",
                                   "bool Net::send(const QByteArray&)" };

// ------------------------------------------------------------------ JSON ----
static QJsonObject node_json(const Node &n)
{
    QJsonObject o;
    o["k"] = QString::fromStdString(n.kind);
    if (n.a)
        o["a"] = n.a;
    if (n.b)
        o["b"] = n.b;
    o["id"] = n.id;
    if (!n.kids.empty()) {
        QJsonArray a;
        for (auto &k : n.kids)
            a.append(node_json(k));
        o["kids"] = a;
    }
    return o;
}
static Node node_from(const QJsonObject &o)
{
    Node n;
    n.kind = o["k"].toString().toStdString();
    n.a = o["a"].toInt();
    n.b = o["b"].toInt();
    n.id = o["id"].toInt();
    for (auto v : o["kids"].toArray())
        n.kids.push_back(node_from(v.toObject()));
    return n;
}
static QJsonObject op_json(const Op &p)
{
    QJsonObject o;
    o["k"] = QString::fromStdString(p.kind);
    if (p.a)
        o["a"] = p.a;
    if (p.b)
        o["b"] = p.b;
    if (p.c)
        o["c"] = p.c;
    if (p.d)
        o["d"] = p.d;
    if (p.e)
        o["e"] = p.e;
    if (!p.s.empty())
        o["s"] = QString::fromStdString(p.s);
    return o;
}
static Op op_from(const QJsonObject &o)
{
    Op p;
    p.kind = o["k"].toString().toStdString();
    p.a = o["a"].toInt();
    p.b = o["b"].toInt();
    p.c = o["c"].toInt();
    p.d = o["d"].toInt();
    p.e = o["e"].toInt();
    p.s = o["s"].toString().toStdString();
    return p;
}
static QJsonArray ops_json(const std::vector<Op> &ops)
{
    QJsonArray a;
    for (auto &p : ops)
        a.append(op_json(p));
    return a;
}
static std::vector<Op> ops_from(const QJsonArray &a)
{
    std::vector<Op> v;
    for (auto x : a)
        v.push_back(op_from(x.toObject()));
    return v;
}

QJsonObject to_json(const Plan &p)
{
    QJsonObject o;
    o["engine"] = "tsim";
    o["prop"] = QString::fromStdString(p.prop);
    o["tier"] = QString::fromStdString(p.tier);
    o["seed"] = QString::number(p.seed);
    o["flavour"] = QString::fromStdString(p.flavour);
    QJsonObject s;
    s["seed"] = QString::number(p.sched_seed);
    s["strategy"] = p.strategy;
    s["pct_depth"] = p.pct_depth;
    s["yield_pct"] = p.yield_pct;
    s["spurious_pm"] = p.spurious_pm;
    s["time_adv_pct"] = p.time_adv_pct;
    s["clock_yield_pct"] = p.clock_yield_pct;
    if (p.io_yield_pct)
        s["io_yield_pct"] = p.io_yield_pct;
    if (p.instr_yield_pp10k)
        s["instr_yield_pp10k"] = p.instr_yield_pp10k;
    if (p.max_decisions != 20000)
        s["max_decisions"] = p.max_decisions;
    s["stall_tid"] = p.stall_tid;
    s["stall_from"] = p.stall_from;
    s["stall_len"] = p.stall_len;
    s["strict"] = p.strict;
    s["sticky_after"] = p.sticky_after;
    if (!p.choices.empty()) {
        QByteArray b((const char *)p.choices.data(), (int)p.choices.size());
        s["choices"] = QString::fromLatin1(b.toHex());
    }
    o["sched"] = s;
    o["target"] = QString::fromStdString(p.target);
    o["app"] = p.app;
    o["poison"] = p.poison;
    o["root"] = node_json(p.root);
    o["main"] = ops_json(p.main_ops);
    QJsonArray pr;
    for (auto &v : p.producers)
        pr.append(ops_json(v));
    o["producers"] = pr;
    if (!p.cfg.isEmpty())
        o["cfg"] = p.cfg;
    if (!p.expect_class.empty())
        o["expect_class"] = QString::fromStdString(p.expect_class);
    return o;
}

bool from_json(const QJsonObject &o, Plan &p, std::string *err)
{
    if (o["engine"].toString() != "tsim") {
        if (err)
            *err = "not a tsim plan";
        return false;
    }
    p = Plan();
    p.prop = o["prop"].toString().toStdString();
    p.tier = o["tier"].toString().toStdString();
    p.seed = o["seed"].toString().toULongLong();
    p.flavour = o["flavour"].toString().toStdString();
    QJsonObject s = o["sched"].toObject();
    p.sched_seed = s["seed"].toString().toULongLong();
    p.strategy = s["strategy"].toInt();
    p.pct_depth = s["pct_depth"].toInt(2);
    p.yield_pct = s["yield_pct"].toInt(100);
    p.spurious_pm = s["spurious_pm"].toInt();
    p.time_adv_pct = s["time_adv_pct"].toInt(20);
    p.clock_yield_pct = s["clock_yield_pct"].toInt(0);
    p.io_yield_pct = s["io_yield_pct"].toInt(0);
    p.instr_yield_pp10k = s["instr_yield_pp10k"].toInt(0);
    p.max_decisions = s["max_decisions"].toInt(20000);
    p.stall_tid = s["stall_tid"].toInt(-1);
    p.stall_from = s["stall_from"].toInt();
    p.stall_len = s["stall_len"].toInt();
    p.strict = s["strict"].toBool();
    p.sticky_after = s["sticky_after"].toBool();
    if (s.contains("choices")) {
        QByteArray b = QByteArray::fromHex(s["choices"].toString().toLatin1());
        p.choices.assign((const uint8_t *)b.constData(), (const uint8_t *)b.constData() + b.size());
    }
    p.target = o["target"].toString().toStdString();
    p.app = o["app"].toBool();
    p.poison = o["poison"].toBool(true);
    p.root = node_from(o["root"].toObject());
    p.main_ops = ops_from(o["main"].toArray());
    for (auto v : o["producers"].toArray())
        p.producers.push_back(ops_from(v.toArray()));
    p.cfg = o["cfg"].toObject();
    p.expect_class = o["expect_class"].toString().toStdString();
    return true;
}

std::string to_json_string(const Plan &p, bool compact)
{
    return QJsonDocument(to_json(p))
            .toJson(compact ? QJsonDocument::Compact : QJsonDocument::Indented)
            .toStdString();
}

// ------------------------------------------------------------- generators ----
using sim::Rng;

namespace {

const char *const kPayloads[] = { "alpha", "beta", "gamma xx", "", "delta  spaced", "UPPER a",
                                  "zeta", "eta %d %s {x}", "theta\ttab", "iota \xc3\xbc\xc3\xb1\xc3\xaf" };
constexpr int kNumPayloads = 10;

struct Gen
{
    Rng r;
    int next_id = 1;
    int next_sink = 0;
    int next_gate = 0;
    int handlers = 0;
    bool thorough = false;
    bool bare_texts = false; // identity travels in the line number, texts may repeat (C02-C04)
};

Node mk(Gen &g, const char *kind, int a = 0, int b = 0)
{
    Node n;
    n.kind = kind;
    n.a = a;
    n.b = b;
    n.id = g.next_id++;
    g.handlers++;
    return n;
}

Node gen_node(Gen &g, int depth, bool allow_gate);

Node gen_pipe(Gen &g, int depth, bool scoped, int maxkids)
{
    Node p = mk(g, "pipe", scoped ? 1 : 0);
    int k = (int)g.r.range(1, maxkids);
    for (int i = 0; i < k && g.handlers < 14; i++)
        p.kids.push_back(gen_node(g, depth, false));
    return p;
}

Node gen_node(Gen &g, int depth, bool)
{
    static const struct
    {
        const char *k;
        int w;
    } W[] = { { "seq", 3 },     { "level", 1 },  { "dup", 1 },   { "regex", 1 },   { "cat", 1 },
              { "pretty", 1 },  { "pattern", 2 }, { "fnattr", 1 }, { "fnfilter", 1 }, { "fnfmt", 1 },
              { "yielder", 4 }, { "rec", 4 },     { "pipe", 3 } };
    int total = 0;
    for (auto &w : W)
        total += w.w;
    for (;;) {
        int x = (int)g.r.below(total);
        const char *k = nullptr;
        for (auto &w : W) {
            if (x < w.w) {
                k = w.k;
                break;
            }
            x -= w.w;
        }
        std::string kind = k;
        if (kind == "pipe") {
            if (depth >= 3)
                continue;
            return gen_pipe(g, depth + 1, g.r.chance(2, 3), 4);
        }
        if (kind == "seq")
            return mk(g, "seq", (int)g.r.below(2));
        if (kind == "level") {
            static const int lv[] = { 0, 4, 1, 2 }; // debug info warning critical (QtMsgType values)
            return mk(g, "level", lv[g.r.below(4)]);
        }
        if (kind == "dup")
            return mk(g, "dup");
        if (kind == "regex")
            return mk(g, "regex", (int)g.r.below(kNumRegex));
        if (kind == "cat")
            return mk(g, "cat", (int)g.r.below(kNumCatRules));
        if (kind == "pretty") {
            static const int w[] = { 0, 15, 6 };
            return mk(g, "pretty", w[g.r.below(3)]);
        }
        if (kind == "pattern")
            return mk(g, "pattern", (int)g.r.below(kNumPatterns));
        if (kind == "fnattr")
            return mk(g, "fnattr", (int)g.r.below(3), (int)g.r.below(100));
        if (kind == "fnfilter")
            return mk(g, "fnfilter", (int)g.r.below(3));
        if (kind == "fnfmt")
            return mk(g, "fnfmt");
        if (kind == "yielder") {
            int yields = (int)g.r.below(4);
            int sleep_us = g.r.chance(1, 3) ? (int)g.r.range(1, 5000) : 0;
            return mk(g, "yielder", yields, sleep_us);
        }
        if (kind == "rec")
            return mk(g, "rec", g.next_sink++);
    }
}

Node gen_tree(Gen &g, bool with_gate)
{
    Node root = mk(g, "pipe", 0);
    int k = (int)g.r.range(1, 6);
    for (int i = 0; i < k && g.handlers < 14; i++)
        root.kids.push_back(gen_node(g, 1, false));
    if (with_gate) {
        // a gate sink somewhere at root level (worker "stuck in I/O")
        Node gate = mk(g, "gate", g.next_gate++);
        size_t pos = g.r.below(root.kids.size() + 1);
        root.kids.insert(root.kids.begin() + pos, gate);
    }
    if (g.next_sink == 0 || g.r.chance(1, 2))
        root.kids.push_back(mk(g, "rec", g.next_sink++));
    return root;
}

Op mkop(const char *k, int a = 0, int b = 0, int c = 0, int d = 0, const std::string &s = std::string())
{
    Op o;
    o.kind = k;
    o.a = a;
    o.b = b;
    o.c = c;
    o.d = d;
    o.s = s;
    return o;
}

Op gen_log(Gen &g, bool allow_null_loc)
{
    static const int types[] = { 0, 4, 1, 2 }; // QtDebugMsg, QtInfoMsg, QtWarningMsg, QtCriticalMsg
    int type = types[g.r.below(4)];
    int cat = g.r.chance(1, 2) ? 0 : (int)g.r.below(kNumCategories);
    int file = allow_null_loc && g.r.chance(1, 6) ? 0 : 1 + (int)g.r.below(kNumFiles - 1);
    int func = allow_null_loc && g.r.chance(1, 6) ? 0 : 1 + (int)g.r.below(kNumFunctions - 1);
    int line = (int)g.r.below(2000);
    return mkop("log", type, cat, file | (func << 8), line, kPayloads[g.r.below(kNumPayloads)]);
}

std::vector<Op> gen_producer(Gen &g, int nmsg, bool allow_null_loc, int pause_pct)
{
    std::vector<Op> ops;
    // occasionally repeat the previous payload so that duplicate filters have work
    std::string prev;
    for (int i = 0; i < nmsg; i++) {
        if ((int)g.r.below(100) < pause_pct) {
            if (g.r.chance(1, 2))
                ops.push_back(mkop("yield"));
            else
                ops.push_back(mkop("sleep", (int)g.r.range(1, 20000)));
        }
        Op l = gen_log(g, allow_null_loc);
        if (!prev.empty() && g.r.chance(1, 5))
            l.s = prev;
        prev = l.s;
        if (g.bare_texts && g.r.chance(1, 3))
            l.c |= 4 << 16; // no unique prefix: the text may equal another message's, also another thread's
        ops.push_back(l);
    }
    return ops;
}

void gen_sched(Gen &g, Plan &p, int nthreads_hint)
{
    p.sched_seed = g.r.next();
    p.strategy = (int)g.r.below(4);
    p.pct_depth = (int)g.r.range(1, 3);
    static const int yp[] = { 100, 100, 60, 30, 10 };
    p.yield_pct = yp[g.r.below(5)];
    p.spurious_pm = g.r.chance(1, 4) ? 5 : 0;
    static const int ta[] = { 0, 10, 20, 40 };
    p.time_adv_pct = ta[g.r.below(4)];
    static const int cy[] = { 0, 0, 10, 30, 100 };
    p.clock_yield_pct = cy[g.r.below(5)];
    if (g.r.chance(1, 5)) {
        p.stall_tid = (int)g.r.below(nthreads_hint + 1);
        p.stall_from = (int)g.r.below(200);
        p.stall_len = (int)g.r.range(4, 30);
    }
}

int msgs_per_producer(Gen &g)
{
    // most runs short, a minority long
    if (g.r.chance(1, 10))
        return (int)g.r.range(7, 12);
    return (int)g.r.range(1, 6);
}

// A third of the recording sinks of a plan with an application object are SignalSinks: a direct slot records
// the delivery, a receiver object living in the main thread gets the same signal (queued when the
// message is emitted on another thread) and must see every message exactly once, unchanged
static void mark_signal_sinks(Gen &g, Node &n)
{
    if (n.kind == "rec" && g.r.chance(1, 2))
        n.b = 1;
    for (auto &k : n.kids)
        mark_signal_sinks(g, k);
}

Plan gen_C02(Gen &g, Plan p)
{
    p.target = g.r.chance(3, 5) ? "logger" : "bare";
    p.app = false;
    p.poison = true;
    p.root = gen_tree(g, false);
    int maxp = g.thorough ? (g.r.chance(1, 8) ? 24 : 10) : 8;
    int np = (int)g.r.range(2, g.r.chance(1, 4) ? maxp : 4);
    if (g.r.chance(1, 10)) {
        // one message is stuck in a handler for seconds while the other threads queue up at the lock
        Node sl = mk(g, "slowonce", 1, (int)g.r.range(3200, 6000));
        p.root.kids.insert(p.root.kids.begin() + g.r.below(p.root.kids.size() + 1), sl);
    }
    bool crowd = g.r.chance(1, g.thorough ? 20 : 60);
    if (crowd) {
        // far more threads than cores, one or two messages each, through a thread-tagging formatter:
        // per-thread tables of the stateful handlers see more than 32 distinct threads
        np = (int)g.r.range(33, 44);
        Node pf = mk(g, "pretty", 15);
        Node rs = mk(g, "rec", g.next_sink++);
        p.root.kids.insert(p.root.kids.begin(), rs);
        p.root.kids.insert(p.root.kids.begin(), pf);
    }
    for (int i = 0; i < np; i++)
        p.producers.push_back(gen_producer(g, crowd ? (int)g.r.range(1, 2) : msgs_per_producer(g), false, 30));
    // main: optionally logs itself, spawns, joins
    if (g.r.chance(1, 3))
        p.main_ops.push_back(gen_log(g, false));
    for (int i = 0; i < np; i++) {
        p.main_ops.push_back(mkop("spawn", i + 1));
        if (g.r.chance(1, 4))
            p.main_ops.push_back(gen_log(g, false));
    }
    p.main_ops.push_back(mkop("join", -1));
    if (g.r.chance(1, 3))
        p.main_ops.push_back(gen_log(g, false));
    if (!crowd && g.r.chance(1, 4)) {
        p.app = true;
        mark_signal_sinks(g, p.root);
    }
    gen_sched(g, p, np);
    return p;
}

Plan gen_C03(Gen &g, Plan p)
{
    p.target = g.r.chance(3, 5) ? "logger" : "bare";
    p.app = true;
    p.poison = true;
    bool gate = g.r.chance(1, 4);
    p.root = gen_tree(g, gate);
    if (g.r.chance(1, 4)) {
        // a handler that logs from the logger thread itself
        Node rl = mk(g, "relog", (int)g.r.range(2, 4));
        p.root.kids.insert(p.root.kids.begin() + g.r.below(p.root.kids.size() + 1), rl);
    }
    if (g.r.chance(1, 3)) {
        Node pr = mk(g, "probe");
        p.root.kids.insert(p.root.kids.begin() + g.r.below(p.root.kids.size() + 1), pr);
    }
    int np = (int)g.r.range(1, g.r.chance(1, 4) ? 6 : 3);
    for (int i = 0; i < np; i++) {
        auto ops = gen_producer(g, msgs_per_producer(g), true, 30);
        if (p.target == "bare") {
            // pre-set formatted text / attributes on harness-built messages
            for (auto &o : ops)
                if (o.kind == "log") {
                    if (g.r.chance(1, 3))
                        o.c |= 1 << 16;
                    if (g.r.chance(1, 3))
                        o.c |= 1 << 17;
                }
        }
        p.producers.push_back(ops);
    }
    p.main_ops.push_back(mkop("move"));
    if (g.r.chance(1, 3))
        p.main_ops.push_back(gen_log(g, true));
    for (int i = 0; i < np; i++)
        p.main_ops.push_back(mkop("spawn", i + 1));
    if (g.r.chance(1, 3)) {
        p.main_ops.push_back(mkop("sleep", (int)g.r.range(100, 30000)));
        int ms = (int)g.r.range(1, 4) * (g.r.chance(1, 2) ? 3600 * 1000 : -90 * 1000);
        p.main_ops.push_back(mkop("clock_jump", ms));
    }
    p.main_ops.push_back(mkop("join", -1)); // all log calls must return while the gate is still closed
    if (gate)
        p.main_ops.push_back(mkop("open_gate", 0));
    if (p.target == "logger" && g.r.chance(1, 6)) {
        // the run ends in a fatal message logged while the logger still runs in its own thread:
        // Qt aborts the process when the handler returns
        Op f = gen_log(g, false);
        f.kind = "fatal";
        f.a = 3;
        if (g.r.chance(1, 2) && !p.producers.empty() && !gate) {
            p.producers[g.r.below(p.producers.size())].push_back(f);
        } else {
            p.main_ops.push_back(f);
        }
    }
    p.main_ops.push_back(mkop("reset"));
    if (g.r.chance(1, 4))
        mark_signal_sinks(g, p.root);
    gen_sched(g, p, np + 1);
    if (gate && g.r.chance(1, g.thorough ? 8 : 25)) {
        // a burst far beyond any plausible queue bound against a stuck sink: the calls must all return.
        // No yield points besides the blocking calls, so that the run stays within the decision cap.
        int n = g.thorough ? (int)g.r.range(3000, 9000) : 4400;
        std::vector<Op> ops;
        Op b = gen_log(g, false);
        for (int i = 0; i < n; i++)
            ops.push_back(b);
        p.producers[0] = ops;
        // a lean pipeline: the stuck sink and a recorder
        Node root = mk(g, "pipe", 0);
        root.kids.push_back(mk(g, "gate", 0));
        root.kids.push_back(mk(g, "rec", 0));
        p.root = root;
        p.max_decisions = 400000;
        p.yield_pct = 0;
        p.clock_yield_pct = 0;
        p.time_adv_pct = 0;
        p.cfg["burst"] = n;
    }
    return p;
}

// C04 ------------------------------------------------------------------------
Plan gen_C04(Gen &g, Plan p)
{
    static const char *fams[] = { "H1", "H1", "H2", "H3", "H4a", "H4b", "H4c", "H5", "H5", "H6", "H6", "H7", "H8", "H8" };
    std::string fam = fams[g.r.below(14)];
    p.cfg["family"] = QString::fromStdString(fam);
    p.target = fam == "H4c" ? "singleton" : (g.r.chance(1, 2) ? "logger" : "bare");
    p.app = fam != "H4b" && fam != "H8";
    p.poison = true;
    bool gate = g.r.chance(1, 6) && fam != "H4c";
    p.root = gen_tree(g, gate);
    if (g.r.chance(1, 6)) {
        Node rl = mk(g, "relog", (int)g.r.range(2, 4));
        p.root.kids.insert(p.root.kids.begin() + g.r.below(p.root.kids.size() + 1), rl);
    }
    if (g.r.chance(1, 8)) {
        // one message gets stuck in a handler for longer than the 3 s the stop waits for the thread
        Node sl = mk(g, "slowonce", 0, (int)g.r.range(3200, 6000));
        p.root.kids.insert(p.root.kids.begin() + g.r.below(p.root.kids.size() + 1), sl);
    }
    int np = (int)g.r.range(0, 4);
    bool burst = g.r.chance(1, 4);
    for (int i = 0; i < np; i++) {
        int n = burst ? (int)g.r.range(8, 20) : msgs_per_producer(g);
        p.producers.push_back(gen_producer(g, n, false, burst ? 5 : 40));
    }
    auto spawn_all = [&] {
        for (int i = 0; i < np; i++)
            p.main_ops.push_back(mkop("spawn", i + 1));
    };
    auto main_logs = [&](int lo, int hi) {
        int n = (int)g.r.range(lo, hi);
        for (int i = 0; i < n; i++)
            p.main_ops.push_back(gen_log(g, false));
    };
    auto maybe_sleep = [&] {
        if (g.r.chance(1, 2))
            p.main_ops.push_back(mkop("sleep", (int)g.r.range(1, 40000)));
    };
    auto maybe_gate = [&] {
        if (gate)
            p.main_ops.push_back(mkop("open_gate", 0));
    };
    if (fam == "H1") {
        p.main_ops.push_back(mkop("move"));
        main_logs(0, 10);
        spawn_all();
        maybe_sleep();
        main_logs(0, 6);
        maybe_gate();
        p.main_ops.push_back(mkop("reset"));
        main_logs(0, 3);
        p.main_ops.push_back(mkop("join", -1));
        main_logs(0, 2);
        p.main_ops.push_back(mkop("destroy"));
    } else if (fam == "H2") {
        p.main_ops.push_back(mkop("move"));
        main_logs(0, 10);
        spawn_all();
        maybe_sleep();
        maybe_gate();
        p.main_ops.push_back(mkop("exec_quit"));
        main_logs(0, 3);
        p.main_ops.push_back(mkop("join", -1));
        p.main_ops.push_back(mkop("destroy"));
    } else if (fam == "H3") {
        p.main_ops.push_back(mkop("move"));
        main_logs(0, 12);
        spawn_all();
        p.main_ops.push_back(mkop("join", -1));
        maybe_gate();
        p.main_ops.push_back(mkop("destroy"));
    } else if (fam == "H4a") {
        p.main_ops.push_back(mkop("move"));
        main_logs(0, 12);
        spawn_all();
        p.main_ops.push_back(mkop("join", -1));
        maybe_sleep();
        maybe_gate();
        p.main_ops.push_back(mkop("destroy_app"));
        p.main_ops.push_back(mkop("destroy"));
    } else if (fam == "H4b") {
        p.main_ops.push_back(mkop("move"));
        main_logs(0, 12);
        spawn_all();
        p.main_ops.push_back(mkop("join", -1));
        maybe_sleep();
        maybe_gate();
        p.main_ops.push_back(mkop("destroy"));
    } else if (fam == "H4c") {
        p.main_ops.push_back(mkop("move"));
        main_logs(0, 12);
        spawn_all();
        p.main_ops.push_back(mkop("join", -1));
        maybe_sleep();
        if (g.r.chance(1, 2))
            p.main_ops.push_back(mkop("destroy_app"));
        p.main_ops.push_back(mkop("exit"));
    } else if (fam == "H8") {
        // the application object appears (or disappears and reappears) while the logger thread already
        // has a backlog: messages accepted without an application object are owed like any other
        bool reappear = g.r.chance(1, 3);
        if (reappear)
            p.main_ops.push_back(mkop("create_app"));
        p.main_ops.push_back(mkop("move"));
        if (reappear) {
            main_logs(0, 4);
            maybe_sleep();
            maybe_gate(); // before anything on the main thread that may itself have to wait for the backlog
            p.main_ops.push_back(mkop("destroy_app"));
        }
        main_logs(1, 8);
        spawn_all();
        if (g.r.chance(2, 3))
            p.main_ops.push_back(mkop("sleep", (int)g.r.range(1, 40000)));
        if (g.r.chance(1, 3))
            p.main_ops.push_back(mkop("join", -1));
        p.main_ops.push_back(mkop("create_app"));
        main_logs(0, 4);
        maybe_sleep();
        maybe_gate();
        switch (g.r.below(4)) {
        case 0:
            p.main_ops.push_back(mkop("reset"));
            main_logs(0, 2);
            break;
        case 1:
            p.main_ops.push_back(mkop("exec_quit"));
            main_logs(0, 2);
            break;
        case 2:
            p.main_ops.push_back(mkop("destroy_app"));
            break;
        default:
            break;
        }
        p.main_ops.push_back(mkop("join", -1));
        main_logs(0, 2);
        p.main_ops.push_back(mkop("destroy"));
    } else if (fam == "H7") {
        // the application object is destroyed by the main thread while another thread is in the middle
        // of a stop (waiting for a backlog): the stop must notice and finish the backlog itself
        std::vector<Op> st;
        if (g.r.chance(1, 2))
            st.push_back(g.r.chance(1, 2) ? mkop("yield") : mkop("sleep", (int)g.r.range(1, 20000)));
        st.push_back(mkop("reset"));
        p.producers.push_back(st);
        p.main_ops.push_back(mkop("move"));
        main_logs(2, 14);
        spawn_all();
        p.main_ops.push_back(mkop("spawn", np + 1));
        maybe_sleep();
        maybe_gate(); // before anything on the main thread that may itself have to wait for the backlog
        p.main_ops.push_back(mkop("destroy_app"));
        p.main_ops.push_back(mkop("join", -1));
        main_logs(0, 2);
        p.main_ops.push_back(mkop("destroy"));
    } else if (fam == "H6") {
        // stops (and restarts) issued by another thread while the main thread runs its event loop
        std::vector<Op> st;
        int cycles = (int)g.r.range(1, 3);
        for (int c = 0; c < cycles; c++) {
            if (g.r.chance(1, 2))
                st.push_back(g.r.chance(1, 2) ? mkop("yield") : mkop("sleep", (int)g.r.range(1, 30000)));
            if (g.r.chance(1, 3))
                st.push_back(gen_log(g, false));
            st.push_back(mkop("reset"));
            if (c + 1 < cycles) {
                if (g.r.chance(1, 3))
                    st.push_back(gen_log(g, false));
                st.push_back(mkop("move"));
            }
        }
        if (g.r.chance(1, 3)) {
            // quit posted before the last stop: the main thread's aboutToQuit stop races with it
            size_t at = st.size() - 1;
            st.insert(st.begin() + at, mkop("post_quit"));
        } else {
            st.push_back(mkop("post_quit"));
        }
        p.producers.push_back(st);
        p.main_ops.push_back(mkop("move"));
        main_logs(0, 8);
        spawn_all();
        p.main_ops.push_back(mkop("spawn", np + 1));
        maybe_gate();
        p.main_ops.push_back(mkop("exec_wait"));
        main_logs(0, 2);
        p.main_ops.push_back(mkop("join", -1));
        main_logs(0, 2);
        p.main_ops.push_back(mkop("destroy"));
    } else { // H5
        int cycles = (int)g.r.range(1, 5);
        spawn_all();
        for (int c = 0; c < cycles; c++) {
            main_logs(0, 2);
            p.main_ops.push_back(mkop("move"));
            main_logs(0, 6);
            maybe_sleep();
            if (gate && c == 0)
                p.main_ops.push_back(mkop("open_gate", 0));
            if (g.r.chance(1, 6))
                p.main_ops.push_back(mkop("move")); // second move is a no-op
            p.main_ops.push_back(mkop("reset"));
            if (g.r.chance(1, 6))
                p.main_ops.push_back(mkop("reset")); // second reset is a no-op
        }
        p.main_ops.push_back(mkop("join", -1));
        main_logs(0, 2);
        p.main_ops.push_back(mkop("destroy"));
    }
    if (p.target == "logger" && !p.main_ops.empty() && p.main_ops.back().kind == "destroy" && g.r.chance(1, 3)) {
        int n = (int)g.r.range(1, 2);
        for (int i = 0; i < n; i++)
            p.main_ops.push_back(mkop("qtlog"));
    }
    gen_sched(g, p, np + 1);
    return p;
}

// C11 ------------------------------------------------------------------------
Plan gen_C11(Gen &g, Plan p)
{
    p.target = "logger";
    p.app = g.r.chance(1, 2);
    p.poison = false;
    static const char *modes[] = { "fluent-plain", "fluent-rot", "oneline-plain", "oneline-rot", "fluent-multi" };
    std::string mode = modes[g.r.below(5)];
    p.cfg["mode"] = QString::fromStdString(mode);
    bool rot = mode == "fluent-rot" || mode == "oneline-rot";
    if (rot) {
        static const int sizes[] = { 0, 200, 1000, 20000, 100000 };
        static const int counts[] = { 0, 0, 3, 5, -1, 1 };
        int opts = (int)g.r.below(8);
        int size = sizes[g.r.below(5)];
        if (size == 0 && !(opts & 3))
            opts |= 1 + (int)g.r.below(2);
        p.cfg["max_size"] = size;
        p.cfg["max_count"] = counts[g.r.below(6)];
        p.cfg["options"] = opts;
    }
    if (mode == "fluent-plain" || mode == "fluent-rot")
        p.cfg["pattern"] = g.r.chance(1, 2) ? -1 : 0; // -1: no formatter (raw message), 0: "%{message}"
    if (mode == "fluent-multi") {
        // a second file sink (audit.log) in a sub-pipeline behind a filter that may reject the fatal message
        p.cfg["pattern"] = 0;
        int kind = (int)g.r.below(3); // 0 level filter, 1 category rules, 2 regular expression
        p.cfg["audit_kind"] = kind;
        static const int lv[] = { 4, 1, 2 }; // info, warning, critical
        p.cfg["audit_arg"] = kind == 0 ? lv[g.r.below(3)] : (kind == 1 ? (int)g.r.below(kNumCatRules) : (int)g.r.below(3));
        static const char *cont[] = { "simple", "simple", "pipeline", "sorted" };
        p.cfg["audit_container"] = cont[g.r.below(4)]; // how the sub-pipeline is built
        p.cfg["audit_enospc"] = g.r.chance(1, 4); // every write to audit.log fails: its flush fails too
        // the branch's file sink is added after the branch was attached and the logger was flushed once
        p.cfg["audit_late"] = g.r.chance(1, 3);
        bool arot = g.r.chance(1, 2);
        p.cfg["audit_rot"] = arot;
        if (arot) {
            static const int sizes[] = { 200, 1000, 20000 };
            p.cfg["audit_size"] = sizes[g.r.below(3)];
        }
        if (g.r.chance(1, 2)) {
            p.cfg["max_size"] = 1000;
            p.cfg["max_count"] = 0;
            p.cfg["options"] = 0;
            p.cfg["main_rot"] = true;
        }
    }
    p.cfg["preexisting"] = g.r.chance(1, 4) ? (int)g.r.range(1, 300) : 0; // bytes already in the file
    p.root = Node();
    p.root.kind = "pipe";
    int np = (int)g.r.range(1, 4);
    int fatal_thread = (int)g.r.below(np + 1); // 0 = main
    auto gen_msgs = [&](int n, bool fatal_here) {
        std::vector<Op> ops;
        int fatal_at = fatal_here ? (int)g.r.below(n + 1) : -1;
        for (int i = 0; i <= n; i++) {
            if (i == fatal_at) {
                Op f = gen_log(g, false);
                f.kind = "fatal";
                f.a = 3;
                ops.push_back(f);
                break;
            }
            if (i == n)
                break;
            if (g.r.chance(1, 4))
                ops.push_back(g.r.chance(1, 2) ? mkop("yield") : mkop("sleep", (int)g.r.range(1, 5000)));
            Op l = gen_log(g, false);
            // sizes: mostly small, sometimes around / above the 16 KiB stream buffer
            int cls = (int)g.r.below(20);
            int extra = 0;
            if (cls == 0)
                extra = (int)g.r.range(16000, 17000);
            else if (cls == 1)
                extra = (int)g.r.range(30000, 70000);
            else if (cls < 5)
                extra = (int)g.r.range(100, 2000);
            l.e = extra; // padding length (ASCII), appended by the harness
            ops.push_back(l);
        }
        return ops;
    };
    // a fifth of the plans: a second thread raises a fatal message too (whichever gets to abort()
    // first terminates the process)
    int fatal_thread2 = g.r.chance(1, 5) ? (int)g.r.below(np + 1) : -1;
    int nmain = g.r.chance(1, 6) ? 0 : (int)g.r.range(0, g.r.chance(1, 5) ? 60 : 8);
    for (int i = 0; i < np; i++) {
        int n = g.r.chance(1, 6) ? 0 : (int)g.r.range(0, g.r.chance(1, 5) ? 60 : 8);
        p.producers.push_back(gen_msgs(n, fatal_thread == i + 1 || fatal_thread2 == i + 1));
    }
    auto mainmsgs = gen_msgs(nmain, fatal_thread == 0 || fatal_thread2 == 0);
    // a fifth of the plans: the logger was asynchronous for a while and is synchronous again. (Not with
    // the one-line configuration: its pretty format tags threads by their id, and whether a later thread
    // gets the id of the logger thread that is gone depends on the allocator - not on the seed.)
    if (g.r.chance(1, 5) && mode.rfind("oneline", 0) != 0) {
        p.main_ops.push_back(mkop("move"));
        if (g.r.chance(1, 2))
            p.main_ops.push_back(gen_log(g, false));
        p.main_ops.push_back(mkop(p.app && g.r.chance(1, 3) ? "exec_quit" : "reset"));
        p.cfg["was_async"] = true;
    }
    // main: some of its own messages first, spawn, rest, join
    size_t cut = mainmsgs.size() ? g.r.below(mainmsgs.size() + 1) : 0;
    if (fatal_thread == 0 || fatal_thread2 == 0)
        cut = 0; // spawn first so that others can be concurrent with the fatal call
    for (size_t i = 0; i < cut; i++)
        p.main_ops.push_back(mainmsgs[i]);
    for (int i = 0; i < np; i++)
        p.main_ops.push_back(mkop("spawn", i + 1));
    for (size_t i = cut; i < mainmsgs.size(); i++)
        p.main_ops.push_back(mainmsgs[i]);
    p.main_ops.push_back(mkop("join", -1));
    gen_sched(g, p, np);
    p.spurious_pm = 0;
    return p;
}

} // namespace

Plan gen_C19(Rng &r, Plan p, bool thorough); // c19.cpp

// C08, thread slice: several compressing sinks, each used by one thread only, rotating at the same time.
// (The single-threaded engine cannot see state that different sink objects share.)
static Plan gen_C08T(Gen &g, Plan p)
{
    p.target = "sinks";
    p.app = false;
    p.poison = false;
    p.root = Node();
    p.root.kind = "pipe";
    int np = (int)g.r.range(2, 4);
    static const int Ls[] = { 200, 1000, 9000, 20000, 70000 };
    int L = Ls[g.r.below(5)];
    p.cfg["family"] = "dual-sinks";
    p.cfg["L"] = L;
    p.cfg["sinks"] = np;
    for (int i = 0; i < np; i++) {
        std::vector<Op> ops;
        int n = (int)g.r.range(3, 10);
        for (int k = 0; k < n; k++) {
            Op o = mkop("send", 0, 0, 0, 0, kPayloads[g.r.below(kNumPayloads)]);
            // sizes around the limit and beyond the 8 KiB CRC read buffer
            static const int szs[] = { 10, 150, 900, 8000, 8200, 17000, 40000 };
            o.e = szs[g.r.below(7)] % (2 * L + 100);
            ops.push_back(o);
            if (g.r.chance(1, 4))
                ops.push_back(mkop("yield"));
        }
        p.producers.push_back(ops);
    }
    for (int i = 0; i < np; i++)
        p.main_ops.push_back(mkop("spawn", i + 1));
    p.main_ops.push_back(mkop("join", -1));
    gen_sched(g, p, np);
    static const int io[] = { 30, 100, 100, 10 };
    p.io_yield_pct = io[g.r.below(4)];
    p.spurious_pm = 0;
    return p;
}

// C02, slice "two pipelines": two independently locked synchronous pipelines, each with a formatter and a
// recording sink, used by different threads at the same time.  Nothing serialises them against each other,
// so state that the library shares between pipelines (function-local statics, caches) is exposed; the
// scheduler additionally takes decisions at function entries inside the library.
static Plan gen_C02D(Gen &g, Plan p)
{
    p.target = "dual";
    p.app = false;
    p.poison = true;
    p.root = Node();
    p.root.kind = "pipe";
    static const int pats[] = { 100, 100, 100, 100, 3, 1 }; // 100: "%{func}|%{message}" (cleaned-up function name), else menu
    p.cfg["family"] = "two-pipelines";
    p.cfg["pattern_a"] = pats[g.r.below(6)];
    p.cfg["pattern_b"] = pats[g.r.below(6)];
    int np = (int)g.r.range(2, 4);
    for (int i = 0; i < np; i++)
        p.producers.push_back(gen_producer(g, (int)g.r.range(2, 10), false, 10));
    if (g.r.chance(1, 2))
        p.main_ops.push_back(gen_log(g, false));
    for (int i = 0; i < np; i++)
        p.main_ops.push_back(mkop("spawn", i + 1));
    if (g.r.chance(1, 2))
        p.main_ops.push_back(gen_log(g, false));
    p.main_ops.push_back(mkop("join", -1));
    gen_sched(g, p, np);
    static const int rates[] = { 0, 20, 100, 400 };
    p.instr_yield_pp10k = rates[g.r.below(4)];
    p.max_decisions = 60000;
    p.spurious_pm = 0;
    return p;
}

Plan generate(const std::string &prop, const std::string &tier, uint64_t seed)
{
    Plan p;
    p.prop = prop;
    p.tier = tier;
    p.seed = seed;
    Gen g;
    g.r = Rng(sim::mix(seed, sim::fnv1a(prop.data(), prop.size())));
    g.thorough = tier == "thorough";
    g.bare_texts = prop == "C02" || prop == "C03" || prop == "C04";
    if (prop == "C02D")
        return gen_C02D(g, p);
    if (prop == "C02")
        return gen_C02(g, p);
    if (prop == "C03")
        return gen_C03(g, p);
    if (prop == "C04")
        return gen_C04(g, p);
    if (prop == "C11")
        return gen_C11(g, p);
    if (prop == "C19")
        return gen_C19(g.r, p, g.thorough);
    if (prop == "C08")
        return gen_C08T(g, p);
    return p;
}

} // namespace tsim
