// Harness event kinds recorded in the shared-memory log (tsim).
#pragma once
#include "sim.h"

namespace tsim {

enum : uint16_t {
    E_INVOKE = 40, // a=call id                    (log call about to be made)
    E_RETURN, // a=call id s=clock reads        (log call returned)
    E_ENTRY, // a=call id b=in-flight before   s=content (first handler of the root pipeline)
    E_EXIT, // a=call id                      (last handler of the root pipeline)
    E_H_IN, // a=node id b=call id
    E_H_OUT, // a=node id b=call id
    E_DELIVER, // a=sink id b=call id s=content
    E_OP_BEGIN, // a=main op index
    E_OP_END, // a=main op index
    E_STOP_BEGIN, // a=main op index b=path (1 reset 2 aboutToQuit 3 destroy 4 exit) c=app alive
    E_STOP_END, // a=main op index b=path
    E_WORKER_TID, // a=logical tid of the worker created by a move op
    E_PRODUCER, // a=producer index (e.tid = its logical thread)
    E_GATE_WAIT, // a=gate id b=call id
    E_APP, // a=1 created 0 destroyed
    E_HANDLER_GONE, // the handler object was destroyed
    E_ACTIVE, // a=step b=handler code that received the marker (install/restore clause)
    E_FATAL_INVOKE, // a=call id
    E_ASYNC_STATE, // a=ownThreadIsRunning()
    E_NOTE, // s=text
    E_PRODUCER_DONE, // a=producer index
    E_FLUSH_IN, // a=probe id     (Sink::flush() of a probe sink entered)
    E_FLUSH_OUT, // a=probe id
    E_PROBE_IN, // a=probe id b=call id (Sink::send() of a probe sink)
    E_PROBE_OUT, // a=probe id b=call id
    E_SIGNAL_RX, // a=sink id b=call id s=content (a receiver object in the main thread got a signal sink's signal)
    E_PUMPED, // the main thread has delivered everything queued for the receiver object
};

} // namespace tsim
