// tsim - thread/time/process-death simulator driver.
//
//   tsim batch <prop> <tier> <base_seed> <first> <stride> <count> <outdir>
//   tsim serve                      (plan JSON lines on stdin -> result JSON lines)
//   tsim gen <prop> <tier> <seed>   (print the plan)
//
// One forked child per run (DESIGN 2.7): the parent ("zygote") is single
// threaded, has Qt loaded and warmed up, and owns the shared-memory region
// into which the child records its history.
#include <cstdio>
#include <cstdlib>
#include <cstring>
#include <dirent.h>
#include <fcntl.h>
#include <fstream>
#include <iostream>
#include <set>
#include <sys/stat.h>
#include <sys/syscall.h>
#include <sys/wait.h>
#include <unistd.h>

#include <QJsonArray>
#include <QJsonDocument>
#include <QJsonObject>

#include "harness.h"
#include "oracle.h"
#include "plan.h"
#include "sim.h"

using namespace tsim;

static std::string g_rundir;
static std::string g_flavour =
#ifdef __SANITIZE_ADDRESS__
        "asan";
#else
        "plain";
#endif

static void clean_dir(const std::string &dir)
{
    DIR *d = opendir(dir.c_str());
    if (!d)
        return;
    while (struct dirent *e = readdir(d)) {
        if (!strcmp(e->d_name, ".") || !strcmp(e->d_name, ".."))
            continue;
        std::string p = dir + "/" + e->d_name;
        struct stat st;
        if (lstat(p.c_str(), &st) == 0 && S_ISDIR(st.st_mode)) {
            clean_dir(p);
            rmdir(p.c_str());
        } else {
            ::unlink(p.c_str());
        }
    }
    closedir(d);
}

static void make_rundir()
{
    char buf[128];
    snprintf(buf, sizeof buf, "/dev/shm/qtlv.%d", (int)getpid());
    mkdir(buf, 0700);
    g_rundir = std::string(buf) + "/r";
    mkdir(g_rundir.c_str(), 0700);
}
static void remove_rundir()
{
    if (g_rundir.empty())
        return;
    clean_dir(g_rundir);
    rmdir(g_rundir.c_str());
    std::string parent = g_rundir.substr(0, g_rundir.size() - 2);
    rmdir(parent.c_str());
}

struct RunResult
{
    Verdict v;
    uint64_t hash = 0, proj = 0;
    uint32_t ndec = 0, nsw = 0;
    int64_t sim_ns = 0;
    uint32_t status = 0;
    std::vector<uint8_t> choices;
};

static RunResult run_one(const Plan &plan, bool want_choices)
{
    RunResult r;
    sim::shm_reset();
    clean_dir(g_rundir);
    fflush(stdout);
    fflush(stderr);
    pid_t pid = fork();
    if (pid < 0) {
        perror("fork");
        exit(2);
    }
    if (pid == 0) {
        run_child(plan, g_rundir);
        _exit(99);
    }
    int st = 0;
    while (waitpid(pid, &st, 0) < 0 && errno == EINTR) { }
    ChildExit ex;
    if (WIFSIGNALED(st)) {
        ex.signaled = true;
        ex.sig = WTERMSIG(st);
    } else {
        ex.code = WEXITSTATUS(st);
    }
    const sim::Shm *s = sim::shm();
    r.v = judge(plan, s, ex, g_rundir);
    if (getenv("TSIM_DUMP_EVENTS")) {
        // inspection aid for a replayed plan: the recorded event log (harness and scheduler events)
        for (uint32_t i = 0; i < s->nevents && i < sim::MAX_EVENTS; i++) {
            const sim::Event &e = s->events[i];
            fprintf(stderr, "ev %u seq=%u T%d kind=%u a=%lld b=%lld c=%lld s=%s\n", i, e.seq, e.tid, e.kind, (long long)e.a,
                    (long long)e.b, (long long)e.c, e.s_len ? sim::ev_str(s, e).c_str() : "");
        }
    }
    r.hash = s->trace_hash;
    r.proj = s->proj_hash;
    r.ndec = s->ndecisions;
    r.nsw = s->nswitches;
    r.sim_ns = s->sim_ns_end;
    r.status = s->status;
    if (want_choices)
        r.choices.assign(s->choices, s->choices + std::min<uint32_t>(s->nchoices, sim::MAX_CHOICES));
    if (!r.v.ok && r.v.cls == "crash") {
        // keep the crash reporter's backtrace with the verdict
        std::ifstream f(g_rundir + "/stderr.txt");
        std::string line, bt;
        bool on = false;
        int n = 0;
        while (std::getline(f, line)) {
            if (line.find("=== fatal signal") != std::string::npos)
                on = true;
            if (on && n++ < 14)
                bt += line.substr(0, 160) + " | ";
        }
        if (!bt.empty())
            r.v.msg += "; " + bt;
    }
    if (!r.v.ok && getenv("TSIM_DUMP_STDERR")) {
        std::ifstream f(g_rundir + "/stderr.txt");
        std::string line;
        int n = 0;
        while (std::getline(f, line) && n++ < 40)
            fprintf(stderr, "child-stderr: %s\n", line.c_str());
    }
    return r;
}

static QJsonObject result_json(const Plan &plan, const RunResult &r, bool with_plan)
{
    QJsonObject o;
    o["ok"] = r.v.ok;
    o["machinery"] = r.v.machinery;
    o["class"] = QString::fromStdString(r.v.cls);
    o["msg"] = QString::fromStdString(r.v.msg);
    o["signature"] = QString::fromStdString(r.v.signature);
    o["hash"] = QString::number(r.hash, 16);
    o["ndec"] = (int)r.ndec;
    o["status"] = (int)r.status;
    if (!r.choices.empty())
        o["choices"] = QString::fromLatin1(
                QByteArray((const char *)r.choices.data(), (int)r.choices.size()).toHex());
    if (with_plan)
        o["plan"] = to_json(plan);
    QJsonObject pr;
    for (auto &kv : r.v.probes)
        pr[QString::fromStdString(kv.first)] = kv.second;
    o["probes"] = pr;
    return o;
}

static const char *kCounterNames[] = {
    "futex_wait", "futex_wake", "cond_wait", "cond_timedout", "pthread_mutex_block", "poll_block", "sleep",
    "spurious_wake", "stall", "time_jump_idle", "time_adv_busy", "clock_jump", "threads_created",
    "pthread_cancel", "yield_hook", "yield_harness", "fair_override", "fs_open", "fs_write", "fs_rename",
    "fs_link", "fs_unlink", "fs_trunc", "fs_errno_injected", "fs_short_write", "fs_eintr", "fs_boundary",
    "yield_clock_read", "fs_write_refused", "yield_file_io", "yield_function_entry"
};

static int cmd_batch(int argc, char **argv)
{
    if (argc < 9) {
        fprintf(stderr, "usage: tsim batch prop tier base_seed first stride count outdir\n");
        return 2;
    }
    std::string prop = argv[2], tier = argv[3];
    uint64_t base = strtoull(argv[4], nullptr, 10);
    long first = atol(argv[5]), stride = atol(argv[6]), count = atol(argv[7]);
    std::string outdir = argv[8];
    double budget_s = getenv("TSIM_BUDGET_S") ? atof(getenv("TSIM_BUDGET_S")) : 1e9;

    std::string outpath = outdir + "/w" + std::to_string(first) + ".jsonl";
    FILE *out = fopen(outpath.c_str(), "w");
    if (!out) {
        perror(outpath.c_str());
        return 2;
    }
    std::set<uint64_t> projs;
    std::map<std::string, long> probe_sum, probe_runs, classes;
    uint64_t counters[sim::N_COUNTERS] = { 0 };
    uint64_t counter_runs[sim::N_COUNTERS] = { 0 };
    long runs = 0, violations = 0, machinery = 0, nondet = 0;
    double sim_s = 0;
    uint64_t decisions = 0, switches = 0;
    QJsonArray samples;
    struct timespec t0;
    // real time for budgets/rates: raw syscall (clock_gettime is simulated in this process)
    auto real_now = [] {
        struct timespec ts;
        syscall(SYS_clock_gettime, CLOCK_MONOTONIC, &ts);
        return ts.tv_sec + ts.tv_nsec * 1e-9;
    };
    (void)t0;
    double start = real_now();
    uint64_t ph = sim::fnv1a(prop.data(), prop.size());
    std::string curpath = outdir + "/w" + std::to_string(first) + ".cur";
    int curfd = ::open(curpath.c_str(), O_WRONLY | O_CREAT | O_TRUNC, 0644);
    for (long k = 0; k < count; k++) {
        long index = first + k * stride;
        uint64_t seed = sim::mix(sim::mix(base, ph), (uint64_t)index);
        Plan plan = generate(prop, tier, seed);
        plan.flavour = g_flavour;
        if (curfd >= 0) {
            char buf[64];
            int n = snprintf(buf, sizeof buf, "%ld %ld          \n", k, index);
            if (pwrite(curfd, buf, (size_t)n, 0) < 0) { }
        }
        RunResult r = run_one(plan, false);
        runs++;
        // determinism gate: the first runs of each worker are executed twice
        if (k < 4) {
            RunResult r2 = run_one(plan, false);
            if (r2.hash != r.hash || r2.v.ok != r.v.ok || r2.v.cls != r.v.cls) {
                nondet++;
                QJsonObject o;
                o["kind"] = "nondeterminism";
                o["both_ok"] = r.v.ok && r2.v.ok;
                o["index"] = (qint64)index;
                o["seed"] = QString::number(seed);
                o["hash1"] = QString::number(r.hash, 16);
                o["hash2"] = QString::number(r2.hash, 16);
                o["plan"] = to_json(plan);
                fprintf(out, "%s\n", QJsonDocument(o).toJson(QJsonDocument::Compact).constData());
            }
        }
        if (r.nsw >= 2)
            projs.insert(r.proj);
        sim_s += r.sim_ns * 1e-9;
        decisions += r.ndec;
        switches += r.nsw;
        const sim::Shm *s = sim::shm();
        for (uint32_t c = 0; c < sim::N_COUNTERS; c++) {
            counters[c] += s->counters[c];
            if (s->counters[c])
                counter_runs[c]++;
        }
        for (auto &kv : r.v.probes) {
            probe_sum[kv.first] += kv.second;
            if (kv.second)
                probe_runs[kv.first]++;
        }
        if (!r.v.ok) {
            if (r.v.machinery)
                machinery++;
            else
                violations++;
            classes[r.v.signature.empty() ? r.v.cls : r.v.signature]++;
            QJsonObject o = result_json(plan, r, true);
            o["kind"] = r.v.machinery ? "machinery" : "violation";
            o["index"] = (qint64)index;
            o["seed"] = QString::number(seed);
            fprintf(out, "%s\n", QJsonDocument(o).toJson(QJsonDocument::Compact).constData());
            fflush(out);
        }
        if (first == 0 && k < 2)
            samples.append(to_json(plan));
        if (violations >= 6)
            break; // a broken tree: enough material for the report, no need to finish the batch
        if (real_now() - start > budget_s)
            break;
    }
    double wall = real_now() - start;
    QJsonObject st;
    st["kind"] = "stats";
    st["prop"] = QString::fromStdString(prop);
    st["flavour"] = QString::fromStdString(g_flavour);
    st["runs"] = (qint64)runs;
    st["violations"] = (qint64)violations;
    st["machinery"] = (qint64)machinery;
    st["nondeterminism"] = (qint64)nondet;
    st["wall_s"] = wall;
    st["sim_s"] = sim_s;
    st["decisions"] = (qint64)decisions;
    st["switches"] = (qint64)switches;
    QJsonObject cj, crj;
    for (uint32_t c = 0; c < sizeof(kCounterNames) / sizeof(*kCounterNames); c++) {
        cj[kCounterNames[c]] = (qint64)counters[c];
        crj[kCounterNames[c]] = (qint64)counter_runs[c];
    }
    st["counters"] = cj;
    st["counter_runs"] = crj;
    QJsonObject pj, prj, clj;
    for (auto &kv : probe_sum)
        pj[QString::fromStdString(kv.first)] = (qint64)kv.second;
    for (auto &kv : probe_runs)
        prj[QString::fromStdString(kv.first)] = (qint64)kv.second;
    for (auto &kv : classes)
        clj[QString::fromStdString(kv.first)] = (qint64)kv.second;
    st["probes"] = pj;
    st["probe_runs"] = prj;
    st["classes"] = clj;
    st["samples"] = samples;
    fprintf(out, "%s\n", QJsonDocument(st).toJson(QJsonDocument::Compact).constData());
    fclose(out);
    std::string hp = outdir + "/w" + std::to_string(first) + ".hashes";
    FILE *hf = fopen(hp.c_str(), "wb");
    if (hf) {
        for (uint64_t h : projs)
            fwrite(&h, sizeof h, 1, hf);
        fclose(hf);
    }
    return 0;
}

static int cmd_serve()
{
    std::string line;
    while (std::getline(std::cin, line)) {
        if (line.empty())
            continue;
        QJsonParseError pe;
        QJsonDocument d = QJsonDocument::fromJson(QByteArray::fromStdString(line), &pe);
        Plan plan;
        std::string err;
        if (d.isNull() || !from_json(d.object(), plan, &err)) {
            printf("{\"ok\":false,\"machinery\":true,\"class\":\"bad-plan\",\"msg\":\"cannot parse plan\"}\n");
            fflush(stdout);
            continue;
        }
        bool want_choices = d.object()["want_choices"].toBool();
        RunResult r = run_one(plan, want_choices);
        QJsonObject o = result_json(plan, r, false);
        printf("%s\n", QJsonDocument(o).toJson(QJsonDocument::Compact).constData());
        fflush(stdout);
    }
    return 0;
}

int main(int argc, char **argv)
{
#ifndef __SANITIZE_ADDRESS__
    // glibc fills freed (and fresh) memory with a byte pattern: a use after free inside an
    // uninstrumented library (Qt) then misbehaves the same way in every process, instead of
    // depending on what the heap happens to hold
    if (!getenv("MALLOC_PERTURB_")) {
        setenv("MALLOC_PERTURB_", "165", 1);
        execv("/proc/self/exe", argv);
    }
#endif
    sim::init_env();
    if (argc < 2) {
        fprintf(stderr, "usage: tsim batch|serve|gen ...\n");
        return 2;
    }
    std::string cmd = argv[1];
    if (cmd == "plan") {
        if (argc < 6)
            return 2;
        std::string prop = argv[2];
        uint64_t ph = sim::fnv1a(prop.data(), prop.size());
        uint64_t seed = sim::mix(sim::mix(strtoull(argv[4], nullptr, 10), ph), strtoull(argv[5], nullptr, 10));
        Plan p = generate(prop, argv[3], seed);
        p.flavour = g_flavour;
        printf("%s\n", to_json_string(p, true).c_str());
        return 0;
    }
    if (cmd == "gen") {
        if (argc < 5)
            return 2;
        Plan p = generate(argv[2], argv[3], strtoull(argv[4], nullptr, 10));
        p.flavour = g_flavour;
        printf("%s\n", to_json_string(p, argc > 5 ? false : true).c_str());
        return 0;
    }
    sim::shm_attach(sim::shm_create());
    make_rundir();
    atexit(remove_rundir);
    warm_up();
    int rc = 2;
    if (cmd == "batch")
        rc = cmd_batch(argc, argv);
    else if (cmd == "serve")
        rc = cmd_serve();
    remove_rundir();
    g_rundir.clear();
    return rc;
}

// sanitizer defaults: distinguishable exit code, no leak checking (runs end with _exit)
extern "C" __attribute__((used)) const char *__asan_default_options()
{
    return "exitcode=77:detect_leaks=0:handle_abort=0:allocator_may_return_null=1:detect_stack_use_after_return=0";
}
extern "C" __attribute__((used)) const char *__ubsan_default_options()
{
    return "halt_on_error=1:exitcode=77:print_stacktrace=1";
}
