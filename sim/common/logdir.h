// Reading a log directory back, independently of qtlogger: directory listing,
// the documented rotated-name scheme <base>.<yyyy-MM-dd>.<index>[.<suffix>][.gz],
// and a strict RFC 1952 reader on top of zlib's gzip decoder (DESIGN 3.2/3.3).
#pragma once

#include <algorithm>
#include <cstdint>
#include <cstdio>
#include <cstring>
#include <dirent.h>
#include <string>
#include <sys/stat.h>
#include <vector>
#include <zlib.h>

namespace logdir {

inline bool read_file(const std::string &path, std::string &out)
{
    FILE *f = fopen(path.c_str(), "rb");
    if (!f)
        return false;
    out.clear();
    char buf[65536];
    size_t n;
    while ((n = fread(buf, 1, sizeof buf, f)) > 0)
        out.append(buf, n);
    fclose(f);
    return true;
}

inline std::vector<std::string> list_files(const std::string &dir)
{
    std::vector<std::string> v;
    DIR *d = opendir(dir.c_str());
    if (!d)
        return v;
    while (struct dirent *e = readdir(d)) {
        if (!strcmp(e->d_name, ".") || !strcmp(e->d_name, ".."))
            continue;
        struct stat st;
        std::string p = dir + "/" + e->d_name;
        if (stat(p.c_str(), &st) == 0 && S_ISREG(st.st_mode))
            v.push_back(e->d_name);
    }
    closedir(d);
    std::sort(v.begin(), v.end());
    return v;
}

inline int64_t mtime_ns(const std::string &path)
{
    struct stat st;
    if (stat(path.c_str(), &st) != 0)
        return -1;
    return (int64_t)st.st_mtim.tv_sec * 1000000000ll + st.st_mtim.tv_nsec;
}

struct RotName
{
    bool ok = false;
    std::string date; // yyyy-MM-dd
    int index = 0;
    bool gz = false;
    std::string plain_name; // name without .gz
};

// active file name = stem + (suffix.empty() ? "" : "." + suffix)
inline RotName parse_rotated(const std::string &name, const std::string &stem, const std::string &suffix)
{
    RotName r;
    std::string n = name;
    if (n.size() > 3 && n.compare(n.size() - 3, 3, ".gz") == 0) {
        r.gz = true;
        n.resize(n.size() - 3);
    }
    r.plain_name = n;
    if (n.compare(0, stem.size(), stem) != 0)
        return r;
    size_t p = stem.size();
    if (p >= n.size() || n[p] != '.')
        return r;
    p++;
    // date
    if (p + 10 > n.size())
        return r;
    for (int i = 0; i < 10; i++) {
        char c = n[p + i];
        bool dash = (i == 4 || i == 7);
        if (dash ? c != '-' : !isdigit((unsigned char)c))
            return r;
    }
    r.date = n.substr(p, 10);
    p += 10;
    if (p >= n.size() || n[p] != '.')
        return r;
    p++;
    size_t q = p;
    while (q < n.size() && isdigit((unsigned char)n[q]))
        q++;
    if (q == p || q - p > 9)
        return r;
    r.index = atoi(n.substr(p, q - p).c_str());
    if (suffix.empty()) {
        if (q != n.size())
            return r;
    } else {
        if (n.compare(q, std::string::npos, "." + suffix) != 0)
            return r;
    }
    r.ok = true;
    return r;
}

// strict gzip reader (RFC 1952): one or more members, each complete, nothing else.  zlib's inflate in
// gzip mode verifies header, deflate stream, CRC-32 and ISIZE of a member; the trailer is re-checked here.
inline bool gunzip_strict(const std::string &in, std::string &out, std::string *err)
{
    auto bad = [&](const char *m) {
        if (err)
            *err = m;
        return false;
    };
    out.clear();
    if (in.size() < 18)
        return bad("shorter than the smallest gzip member");
    size_t pos = 0;
    int members = 0;
    while (pos < in.size()) {
        const unsigned char *p = (const unsigned char *)in.data() + pos;
        size_t left = in.size() - pos;
        if (left < 18)
            return bad(members ? "trailing bytes after the last gzip member" : "shorter than the smallest gzip member");
        if (p[0] != 0x1f || p[1] != 0x8b)
            return bad(members ? "trailing bytes after the last gzip member" : "bad magic");
        if (p[2] != 8)
            return bad("CM != 8");
        if (p[3] & 0xE0)
            return bad("reserved FLG bits set");
        z_stream zs;
        memset(&zs, 0, sizeof zs);
        if (inflateInit2(&zs, 16 + 15) != Z_OK)
            return bad("inflateInit2");
        zs.next_in = (Bytef *)p;
        zs.avail_in = (uInt)left;
        std::string part;
        char buf[65536];
        int rc;
        do {
            zs.next_out = (Bytef *)buf;
            zs.avail_out = sizeof buf;
            rc = inflate(&zs, Z_NO_FLUSH);
            if (rc != Z_OK && rc != Z_STREAM_END) {
                inflateEnd(&zs);
                return bad(rc == Z_DATA_ERROR ? "inflate: data error (stream, CRC or length)"
                                              : (rc == Z_BUF_ERROR ? "inflate: truncated" : "inflate: error"));
            }
            part.append(buf, sizeof buf - zs.avail_out);
        } while (rc != Z_STREAM_END);
        size_t used = left - zs.avail_in;
        inflateEnd(&zs);
        // re-check this member's trailer ourselves
        const unsigned char *t = p + used - 8;
        uint32_t crc = t[0] | (t[1] << 8) | (t[2] << 16) | ((uint32_t)t[3] << 24);
        uint32_t isz = t[4] | (t[5] << 8) | (t[6] << 16) | ((uint32_t)t[7] << 24);
        uint32_t c = (uint32_t)crc32(0L, (const Bytef *)part.data(), (uInt)part.size());
        if (c != crc)
            return bad("CRC-32 in trailer does not match content");
        if (isz != (uint32_t)part.size())
            return bad("ISIZE in trailer does not match content length");
        out += part;
        pos += used;
        members++;
    }
    return true;
}

struct Segment
{
    std::string name; // file name in the directory
    RotName rn; // rn.ok == false for the active file
    std::string content; // decoded
    bool decode_ok = true;
    std::string decode_err;
};

// rotated files ordered by (date, index), then the active file
inline std::vector<Segment> read_log_dir(const std::string &dir, const std::string &stem,
                                         const std::string &suffix)
{
    std::vector<Segment> rot;
    Segment active;
    bool have_active = false;
    std::string active_name = suffix.empty() ? stem : stem + "." + suffix;
    auto files = list_files(dir);
    for (auto &f : files) {
        if (f == active_name) {
            active.name = f;
            read_file(dir + "/" + f, active.content);
            have_active = true;
            continue;
        }
        RotName rn = parse_rotated(f, stem, suffix);
        if (!rn.ok)
            continue;
        Segment s;
        s.name = f;
        s.rn = rn;
        std::string raw;
        read_file(dir + "/" + f, raw);
        if (rn.gz) {
            // an index present both plain and .gz reads the plain one
            bool plain_exists = std::find(files.begin(), files.end(), rn.plain_name) != files.end();
            if (plain_exists)
                continue;
            s.decode_ok = gunzip_strict(raw, s.content, &s.decode_err);
        } else {
            s.content = raw;
        }
        rot.push_back(s);
    }
    std::sort(rot.begin(), rot.end(), [](const Segment &a, const Segment &b) {
        if (a.rn.date != b.rn.date)
            return a.rn.date < b.rn.date;
        return a.rn.index < b.rn.index;
    });
    if (have_active)
        rot.push_back(active);
    return rot;
}

inline std::vector<std::string> split_lines(const std::string &s, bool *last_complete = nullptr)
{
    std::vector<std::string> v;
    size_t start = 0;
    for (;;) {
        size_t p = s.find('\n', start);
        if (p == std::string::npos) {
            if (start < s.size()) {
                v.push_back(s.substr(start));
                if (last_complete)
                    *last_complete = false;
            } else if (last_complete) {
                *last_complete = true;
            }
            break;
        }
        v.push_back(s.substr(start, p - start));
        start = p + 1;
    }
    return v;
}

} // namespace logdir
