// Histories for the clock/file-system/crash simulator (fsim).
#pragma once

#include <cstdint>
#include <string>
#include <vector>

#include <QJsonArray>
#include <QJsonObject>

#include "sim.h"

namespace fsim {

struct FOp
{
    std::string k; // write | advance | restart | checkpoint | swrite (record for the sibling sink)
    int n = 0; // write: record size in bytes
    int cat = 0; // write: 0 = category "default", 1 = a named category (message reaches the sink unformatted)
    int fmt = 0; // write: 1 = the record is the message's *formatted* text, the raw message text differs
    int cls = 0; // write: content class (0 ascii, 1 multi-byte utf-8, 2 long runs, 3 pseudo-random ascii, 4 control characters incl. CR, CR LF, embedded LF)
    int64_t ms = 0; // advance: milliseconds
    int days = 0; // advance: whole days (after ms)
    int to = 0; // advance: 1 = to 23:59:59.999 of the current day first
    int rmobst = 0; // restart: 1 = the obstacle directory (if any) is removed before the sink is created again
    int wj = 0; // advance: 1 = the whole days are a step of the wall clock only (clock set / suspend): the monotonic clock does not move
    // attached faults (C10): at most one of them in a replayed plan
    int crash_b = -1; // crash at the b-th state-changing boundary inside this operation
    int crash_torn = 0; // >0: the boundary is a write; only that many of its bytes reach the file
    int fault_call = -1, fault_nth = 0, fault_errno = 0; // fail the nth call of that kind inside this operation
};

struct FPlan
{
    std::string prop, tier = "quick";
    uint64_t seed = 0;
    std::string base = "app.log"; // may contain one directory component
    int L = 0, N = 0, options = 0;
    bool via_pipeline = false;
    int gran_ms = 1;
    int short_write_pct = 0, eintr_pct = 0;
    uint64_t fault_seed = 1;
    std::vector<int> foreign; // indices into the foreign-name menu
    int tz_min = 0; // local time zone, minutes east of UTC (TZ is set accordingly; days are local days)
    int pre_bytes = 0; // >0: the log file exists before the first start and holds that many bytes of binary-looking data
    int pre_age_days = 0; // ... last written that many days before the run
    int obstacle = 0; // >0: a directory named like rotated file <index> of the first day exists (C05, C06, C10)
    bool decoy = false; // every formatted record first passes another rotating sink with another formatted text (C05, C07)
    bool obstacle_gz = false; // ... like the compressed form of that rotated file (its compression cannot be created)
    std::string sibling; // base name of a second rotating sink working in the same directory (C06), or empty
    int start_ms_of_day = 12 * 3600 * 1000;
    std::vector<FOp> ops;
    bool enumerate = false; // C10 batch mode: all crash points and all single failures
    int restart_writes = 3; // C10: records written by the fresh sink after a crash
    std::string expect_class;
};

QJsonObject to_json(const FPlan &p);
bool from_json(const QJsonObject &o, FPlan &p);
FPlan generate(const std::string &prop, const std::string &tier, uint64_t seed);

extern const char *const kForeignMenu[];
constexpr int kNumForeign = 9;

} // namespace fsim
