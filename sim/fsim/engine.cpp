// fsim engine: executes one history against the real file sinks on a private
// tmpfs directory under the virtual clock, observes the directory after every
// operation (and at every system-call boundary in crash mode) and evaluates the
// rotation history model (DESIGN 3.2) for the property under test.
#include "engine.h"

#include <algorithm>
#include <cerrno>
#include <cstring>
#include <dirent.h>
#include <map>
#include <set>
#include <sstream>
#include <sys/stat.h>
#include <unistd.h>

#include <QDateTime>
#include <QDir>
#include <QSharedPointer>

#include "logdir.h"
#include "qtlogger.h"

using namespace QtLogger;

namespace fsim {

namespace {

struct FileObs
{
    std::string name;
    std::string raw;
    int64_t mtime = 0;
};
using Snapshot = std::vector<FileObs>;

const FileObs *find(const Snapshot &s, const std::string &name)
{
    for (auto &f : s)
        if (f.name == name)
            return &f;
    return nullptr;
}

Snapshot observe_dir(const std::string &dir)
{
    Snapshot s;
    for (auto &n : logdir::list_files(dir)) {
        FileObs f;
        f.name = n;
        logdir::read_file(dir + "/" + n, f.raw);
        f.mtime = logdir::mtime_ns(dir + "/" + n);
        s.push_back(f);
    }
    return s;
}

void rm_rf(const std::string &dir)
{
    DIR *d = opendir(dir.c_str());
    if (!d)
        return;
    while (struct dirent *e = readdir(d)) {
        if (!strcmp(e->d_name, ".") || !strcmp(e->d_name, ".."))
            continue;
        std::string p = dir + "/" + e->d_name;
        struct stat st;
        if (lstat(p.c_str(), &st) == 0 && S_ISDIR(st.st_mode)) {
            rm_rf(p);
            rmdir(p.c_str());
        } else {
            ::unlink(p.c_str());
        }
    }
    closedir(d);
}

struct Rec
{
    int id;
    std::string bytes; // without newline
    int64_t day;
    int op;
};

struct Segment
{
    std::string plain_name, date;
    int index = 0;
    std::string content; // expected decoded content
    std::vector<int> recs;
    int order = 0;
    int created_op = -1;
    bool present = true;
    int64_t mtime = 0; // at first observation
    bool tainted = false; // see Engine::active_tainted
};

std::string make_record(int id, int n, int cls)
{
    std::string s;
    if (n <= 0)
        return s;
    std::string tag = "r" + std::to_string(id) + ":";
    if (cls == 1) {
        // multi-byte UTF-8: 2- and 3-byte code points, padded with ASCII to the exact byte length
        s = (int)tag.size() <= n ? tag : std::string();
        uint64_t x = 0x9E3779B97F4A7C15ull * (uint64_t)(id + 1);
        while ((int)s.size() < n) {
            x = x * 6364136223846793005ull + 1442695040888963407ull;
            int room = n - (int)s.size();
            unsigned k = (unsigned)(x >> 33);
            if (room >= 3 && (k & 1)) {
                unsigned cp = 0x4E00 + (k >> 1) % 0x5000; // CJK
                s += char(0xE0 | (cp >> 12));
                s += char(0x80 | ((cp >> 6) & 0x3F));
                s += char(0x80 | (cp & 0x3F));
            } else if (room >= 2) {
                unsigned cp = 0xA1 + (k >> 1) % 0x500;
                s += char(0xC0 | (cp >> 6));
                s += char(0x80 | (cp & 0x3F));
            } else {
                s += char('a' + k % 26);
            }
        }
        return s;
    }
    if ((int)tag.size() <= n)
        s = tag;
    if (cls == 2) {
        s.append(n - s.size(), char('A' + id % 26));
        return s;
    }
    if (cls == 4) {
        // binary-looking text: carriage returns, CR LF pairs, tabs, other control characters, DEL
        // ... and NUL characters (a dumped binary frame)
        static const std::string bits[] = { "\r", "\r\n", "\t", "\x01", "\x1b[0m", "\x7f", "\x1f", "\n", "\r\r", "\x0c",
                                            std::string(1, '\0'), std::string("\0\0", 2) };
        uint64_t x = 0xA0761D6478BD642Full * (uint64_t)(id + 3);
        while ((int)s.size() < n) {
            x = x * 6364136223846793005ull + 1442695040888963407ull;
            unsigned k = (unsigned)(x >> 35);
            std::string piece = (k % 3 == 0) ? bits[(k / 3) % 12] : std::string(1, char(33 + (k / 3) % 94));
            if ((int)(s.size() + piece.size()) > n)
                piece = std::string(1, char('a' + k % 26));
            s += piece;
        }
        return s;
    }
    if (cls == 3) {
        uint64_t x = 0xD1B54A32D192ED03ull * (uint64_t)(id + 7);
        while ((int)s.size() < n) {
            x = x * 6364136223846793005ull + 1442695040888963407ull;
            s += char(33 + (x >> 35) % 94);
        }
        return s;
    }
    while ((int)s.size() < n)
        s += char('a' + (id + (int)s.size()) % 26);
    return s;
}

struct Peek : IODeviceSink
{
    using IODeviceSink::device;
};

int64_t epoch_for(int start_ms_of_day)
{
    return 1767225600ll * sim::SEC + (int64_t)start_ms_of_day * sim::MS; // 2026-01-01 + offset
}

struct Engine;
Engine *g_engine = nullptr;

struct Engine
{
    const FPlan &P;
    std::string root, logdir_path, active_name, stem, suffix, active_rel;
    std::string active_abs;
    QSharedPointer<Sink> sink;
    IODeviceSink *iosink = nullptr;
    Result res;

    std::vector<Rec> recs;
    std::vector<int> pending; // records expected in the active file (in order)
    std::vector<Segment> segs;
    int next_order = 0;
    std::map<std::string, std::vector<std::string>> names_seen; // name -> contents ever observed under it
    std::map<std::string, std::pair<std::string, int64_t>> foreign; // name -> (bytes, mtime)
    int cur_op = -1;
    int rotations = 0, removals = 0, compressions = 0, tie_rotations = 0, refused = 0;
    int max_index = 0;
    uint64_t proj = 0xcbf29ce484222325ull;
    bool fault_mode = false; // single-failure run: conservation only
    int64_t sim_start = 0;

    // per-operation state for boundary checks
    size_t lenA_prev = 0; // kernel length of the active file at the start of the operation
    std::string top; // private directory that holds the simulated root
    QSharedPointer<RotatingFileSink> decoy;
    size_t written_this_op = 0; // bytes passed to write(2) on the active path in this operation
    struct OpRot
    {
        std::string name, content;
        int64_t mtime;
        bool by_copy = false; // made by Qt's copy fall-back: the content arrives after the name
    };
    std::vector<OpRot> op_rot; // every rotated name the active file was renamed to in this operation, in order
    std::string cur_X; // the last of them (plain name), if any
    std::string cur_X_expected;
    int64_t cur_X_mtime = 0;
    bool active_tainted = false; // holds records of an earlier day that were flushed on a later day
    int late_flush_taints = 0;
    int boundary_in_op = 0;
    // crash mode
    bool take_snapshots = false;
    struct Crash
    {
        int op, b;
        int torn; // 0 = full boundary, else only that many bytes of the write reached the file
        std::string what;
        Snapshot snap;
        size_t kP;
        std::string cur_X, cur_X_expected;
        std::vector<int> pending;
        std::vector<OpRot> op_rot;
        int64_t wall;
    };
    std::vector<Crash> crashes;
    std::vector<std::pair<std::string, std::string>> pre_segs; // rotated files present before the operation
    void (*crash_eval)(Engine &) = nullptr;
    long crash_points = 0;
    bool suspended = false; // boundary callback off (restart clause runs a second sink)
    std::vector<std::array<int, 3>> fault_sites; // (op, call, nth)
    std::vector<std::array<int, 3>> gz_write_sites; // (op, FS_WRITE, nth): writes that carried bytes of a compressed file
    bool collecting_sites = false;
    // sibling sink (C06): a second rotating sink with a look-alike name in the same directory
    QSharedPointer<Sink> sib;
    std::string sib_name, sib_stem, sib_suffix;
    int sib_records = 0;

    explicit Engine(const FPlan &p) : P(p) { }

    // ------------------------------------------------------------------ helpers --
    void fail(const std::string &cls, const std::string &msg, const std::string &sig = std::string())
    {
        if (!res.ok)
            return;
        res.ok = false;
        res.cls = cls;
        res.msg = "op " + std::to_string(cur_op) + ": " + msg;
        res.signature = sig.empty() ? cls : sig;
    }
    bool is(const char *prop) const { return P.prop == prop; }
    void projh(const std::string &s) { proj = sim::fnv1a(s.data(), s.size(), proj); }

    std::string rec_stream(const std::vector<int> &ids) const
    {
        std::string s;
        for (int id : ids) {
            s += recs[id].bytes;
            s += '\n';
        }
        return s;
    }

    bool decode(const FileObs &f, std::string &out, std::string *err) const
    {
        if (f.name.size() > 3 && f.name.compare(f.name.size() - 3, 3, ".gz") == 0)
            return logdir::gunzip_strict(f.raw, out, err);
        out = f.raw;
        return true;
    }

    // rotated names present in a snapshot: plain name -> decoded content (plain preferred)
    struct RotObs
    {
        std::string content;
        bool ok = true;
        std::string err;
        bool gz = false, both = false;
        int64_t mtime = 0;
        logdir::RotName rn;
    };
    std::map<std::string, RotObs> rotated_in(const Snapshot &s) const
    {
        std::map<std::string, RotObs> m;
        for (auto &f : s) {
            if (f.name == active_name)
                continue;
            logdir::RotName rn = logdir::parse_rotated(f.name, stem, suffix);
            if (!rn.ok)
                continue;
            if (foreign.count(f.name))
                continue;
            auto it = m.find(rn.plain_name);
            if (rn.gz) {
                if (it != m.end()) {
                    it->second.both = true;
                    continue; // plain already there: plain wins
                }
                RotObs o;
                o.gz = true;
                o.rn = rn;
                o.mtime = f.mtime;
                o.ok = logdir::gunzip_strict(f.raw, o.content, &o.err);
                m[rn.plain_name] = o;
            } else {
                RotObs o;
                o.rn = rn;
                o.mtime = f.mtime;
                o.content = f.raw;
                if (it != m.end())
                    o.both = true;
                m[rn.plain_name] = o;
            }
        }
        return m;
    }

    // ---------------------------------------------------------------- set-up --
    void make_sink()
    {
        QString path = QString::fromStdString(active_abs);
        RotatingFileSink::Options opts = RotatingFileSink::Options(P.options);
        if (P.via_pipeline) {
            SimplePipeline pl;
            pl.sendToFile(path, P.L, P.N, opts);
            auto hs = static_cast<const Pipeline &>(pl).handlers();
            sink = hs.isEmpty() ? QSharedPointer<Sink>() : hs.first().dynamicCast<Sink>();
        } else {
            sink = RotatingFileSinkPtr::create(path, P.L, P.N, opts);
        }
        iosink = dynamic_cast<IODeviceSink *>(sink.data());
        if (P.decoy && !decoy) {
            // another rotating sink (outside the simulated directory) that every formatted record passes
            // first, with another formatted text: nothing a sink learns about a message may outlive
            // a change of that message
            mkdir((top + "/decoy").c_str(), 0700);
            decoy = RotatingFileSinkPtr::create(QString::fromStdString(top + "/decoy/d.log"), 40, 2, RotatingFileSink::Options());
        }
    }
    bool device_open() const
    {
        if (!iosink)
            return false;
        const QIODevicePtr &d = (iosink->*(&Peek::device))();
        return d && d->isOpen();
    }

    qint64 buffered_bytes() const
    {
        if (!iosink)
            return 0;
        const QIODevicePtr &d = (iosink->*(&Peek::device))();
        return d && d->isOpen() ? d->bytesToWrite() : 0;
    }

    std::string foreign_name(int idx) const
    {
        std::string suf = suffix.empty() ? "" : "." + suffix;
        switch (idx % kNumForeign) {
        case 0:
            return active_name + ".bak";
        case 1:
            return stem + ".2024-01-01" + suf;
        case 2:
            return "x" + stem + ".2024-01-01.1" + suf;
        case 3:
            return stem + "2.2024-01-01.1" + suf;
        case 4:
            return stem + ".2024-01-01.1" + suf + "x";
        case 5:
            return stem + ".2024-01-01.1" + suf + ".gz.tmp";
        case 6: {
            std::string u = stem;
            for (auto &c : u)
                c = (char)toupper((unsigned char)c);
            return u + ".2024-01-01.1" + suf;
        }
        case 7: {
            std::string m = stem;
            bool changed = false;
            for (size_t i = 0; i < m.size(); i++) {
                if (m[i] == '+' && i > 0) {
                    m[i] = m[i - 1];
                    changed = true;
                } else if (m[i] == '.') {
                    m[i] = 'x';
                    changed = true;
                }
            }
            if (!changed)
                return stem + ".2024-1-01.1" + suf;
            return m + ".2024-01-01.1" + suf;
        }
        default:
            return stem + ".2024-01-01.x1" + suf;
        }
    }

    void setup()
    {
        root = "/dev/shm/qtlv." + std::to_string((int)getpid()) + "/h";
        top = "/dev/shm/qtlv." + std::to_string((int)getpid());
        mkdir(top.c_str(), 0700);
        rm_rf(top + "/decoy");
        mkdir(root.c_str(), 0700);
        rm_rf(root);
        std::string base = P.base;
        std::string sub;
        size_t sl = base.find('/');
        if (sl != std::string::npos) {
            sub = base.substr(0, sl);
            base = base.substr(sl + 1);
        }
        logdir_path = sub.empty() ? root : root + "/" + sub;
        if (!sub.empty())
            mkdir(logdir_path.c_str(), 0700);
        active_name = base;
        active_rel = sub.empty() ? base : sub + "/" + base;
        active_abs = logdir_path + "/" + base;
        size_t dot = base.rfind('.');
        if (dot == std::string::npos || dot == 0) {
            stem = base;
            suffix = "";
        } else {
            stem = base.substr(0, dot);
            suffix = base.substr(dot + 1);
        }
        {
            // POSIX TZ strings have the sign reversed: 9 h east of UTC is "XXX-9"
            int m = P.tz_min;
            char tz[32];
            snprintf(tz, sizeof tz, "XXX%s%d:%02d", m > 0 ? "-" : (m < 0 ? "+" : ""), abs(m) / 60, abs(m) % 60);
            setenv("TZ", m == 0 ? "UTC" : tz, 1);
            tzset();
        }
        // the run starts at the given local time of day on (local) 2026-01-01
        // The steady clock starts where the wall clock's start puts it, so that "wall minus steady" is the same
        // constant in every history a worker process runs (a library that relates the two clocks once per
        // process must not see a difference between the first history of a process and a later one: replays
        // run in fresh processes). Only an explicit step of the wall clock (advance with wj) changes the relation.
        {
            const int64_t wall0 = epoch_for(P.start_ms_of_day) - (int64_t)P.tz_min * 60 * sim::SEC;
            const int64_t base = (1767225600ll - 30 * 86400ll) * sim::SEC; // 2025-12-02T00:00:00Z
            sim::clock_set(wall0, 1000 * sim::SEC + (wall0 - base));
        }
        sim::clock_tick_always(true);
        sim_start = sim::mono_now();
        if (P.pre_bytes > 0) {
            // content that was in the log file before this sink ever ran: binary-looking, incompressible
            // bytes ending in a newline - one "record" as far as the framing goes
            std::string blob;
            uint64_t x = 0x2545F4914F6CDD1Dull ^ (uint64_t)P.pre_bytes;
            while ((int)blob.size() + 1 < P.pre_bytes) {
                x ^= x << 13;
                x ^= x >> 7;
                x ^= x << 17;
                blob += (char)(x >> 24);
            }
            Rec r;
            r.id = (int)recs.size();
            r.bytes = blob;
            r.op = -2;
            int64_t mt = sim::wall_now() - 3600 * sim::SEC - (int64_t)P.pre_age_days * sim::DAY;
            r.day = local_day(mt);
            recs.push_back(r);
            pending.push_back(r.id);
            FILE *f = fopen(active_abs.c_str(), "wb");
            if (f) {
                fwrite(blob.data(), 1, blob.size(), f);
                fputc('\n', f);
                fclose(f);
                sim::fs_stamp(active_abs.c_str(), mt);
            }
        }
        if (P.obstacle > 0) {
            // a directory that occupies the name of a future rotated file: the rename to it fails as a whole
            std::string n = stem + ".2026-01-01." + std::to_string(P.obstacle) + (suffix.empty() ? "" : "." + suffix);
            if (P.obstacle_gz)
                n += ".gz"; // ... or of its compressed form: the rename works, the compression cannot be created
            mkdir((logdir_path + "/" + n).c_str(), 0700);
            // by the virtual clock, like everything else in the directory (a real time stamp would be the only
            // real clock value a library that looks at the obstacle could ever see)
            sim::fs_stamp((logdir_path + "/" + n).c_str(), sim::wall_now() - 3600 * sim::SEC);
        }
        name_sibling();
        for (int idx : P.foreign) {
            std::string n = foreign_name(idx);
            if (n == active_name || logdir::parse_rotated(n, stem, suffix).ok || foreign.count(n))
                continue;
            if (is_sibling_file(n))
                continue; // it would be the sibling sink's own file, which that sink may rotate away
            std::string bytes = "foreign " + n + "\n";
            std::string path = logdir_path + "/" + n;
            FILE *f = fopen(path.c_str(), "wb");
            if (!f)
                continue;
            fwrite(bytes.data(), 1, bytes.size(), f);
            fclose(f);
            int64_t mt = epoch_for(0) - 400 * sim::DAY + idx * sim::SEC;
            sim::fs_stamp(path.c_str(), mt);
            foreign[n] = { bytes, logdir::mtime_ns(path) };
        }
    }

    bool is_sibling_file(const std::string &name) const
    {
        if (sib_name.empty())
            return false;
        return name == sib_name || logdir::parse_rotated(name, sib_stem, sib_suffix).ok;
    }
    // files of the other party: (name -> bytes, mtime)
    std::map<std::string, std::pair<std::string, int64_t>> party_files(bool sibling_side) const
    {
        std::map<std::string, std::pair<std::string, int64_t>> m;
        for (auto &f : observe_dir(logdir_path)) {
            bool s = is_sibling_file(f.name);
            bool mine = f.name == active_name || logdir::parse_rotated(f.name, stem, suffix).ok;
            if (sibling_side ? s : (mine && !s))
                m[f.name] = { f.raw, f.mtime };
        }
        return m;
    }
    void name_sibling()
    {
        if (P.sibling.empty())
            return;
        std::string b = P.sibling;
        size_t sl = b.find('/');
        if (sl != std::string::npos)
            b = b.substr(sl + 1);
        sib_name = b;
        size_t dot = b.rfind('.');
        if (dot == std::string::npos || dot == 0) {
            sib_stem = b;
            sib_suffix = "";
        } else {
            sib_stem = b.substr(0, dot);
            sib_suffix = b.substr(dot + 1);
        }
        if (sib_name == active_name)
            sib_name.clear();
    }
    void make_sibling()
    {
        if (sib_name.empty())
            return;
        suspended = true;
        sib = RotatingFileSinkPtr::create(QString::fromStdString(logdir_path + "/" + sib_name), P.L, P.N,
                                         RotatingFileSink::Options(P.options));
        suspended = false;
    }
    void do_swrite(const FOp &op)
    {
        if (!sib)
            return;
        auto before = party_files(false);
        std::string bytes = "s" + std::to_string(sib_records++) + ":" + std::string(op.n > 0 ? op.n : 1, 'z');
        QMessageLogContext ctx("f.cpp", 1, "void f()", "default");
        LogMessage lmsg(QtDebugMsg, ctx, QString::fromStdString(bytes));
        suspended = true;
        sib->send(lmsg);
        suspended = false;
        auto after = party_files(false);
        if (before != after && is("C06"))
            fail("foreign-file-touched", "a write of the sibling sink " + sib_name + " changed files of " + active_name,
                 "foreign-file-touched/sibling");
    }

    static void boundary_cb(const sim::FsBoundary &b, void *ctx) { ((Engine *)ctx)->on_boundary(b); }

    void arm()
    {
        sim::FsConfig fc;
        fc.root = root;
        fc.granularity_ns = (int64_t)P.gran_ms * sim::MS;
        fc.short_write_pct = P.short_write_pct;
        fc.eintr_pct = P.eintr_pct;
        fc.fault_seed = P.fault_seed;
        fc.on_boundary = boundary_cb;
        fc.ctx = this;
        sim::fs_arm(fc);
    }

    // ------------------------------------------------------ boundary callback --
    void on_boundary(const sim::FsBoundary &b)
    {
        if (suspended)
            return;
        bool is_active_write = b.call == sim::FS_WRITE && b.path && active_rel == b.path;
        if (b.before) {
            // torn variant of a write to the active log file: only part of the payload arrives
            if (take_snapshots && is_active_write && b.len > 1 && b.result_errno == 0)
                snapshot_crash(b, (int)(1 + (b.len - 1) / 2), (const char *)b.buf);
            return;
        }
        if (b.result_errno != 0) {
            boundary_in_op++;
            return; // failed call: state unchanged
        }
        if (is_active_write)
            written_this_op += b.len;
        // a write to a compressed rotated file: a site for the "disk full while compressing" failure
        if (collecting_sites && b.call == sim::FS_WRITE && !is_active_write && b.path) {
            size_t pl = strlen(b.path);
            if (pl > 3 && !strcmp(b.path + pl - 3, ".gz"))
                gz_write_sites.push_back({ cur_op, (int)sim::FS_WRITE, b.ordinal });
        }
        // a rename/link that makes a rotated name appear
        if ((b.call == sim::FS_RENAMEAT2 || b.call == sim::FS_RENAME || b.call == sim::FS_LINK) && b.path2) {
            std::string dst = b.path2;
            size_t sl = dst.rfind('/');
            std::string name = sl == std::string::npos ? dst : dst.substr(sl + 1);
            logdir::RotName rn = logdir::parse_rotated(name, stem, suffix);
            if (rn.ok && !rn.gz && b.path && active_rel == b.path) {
                cur_X = name;
                // what the renamed file holds at this moment is what the rotated segment must keep holding
                // (whether it is the right content is judged after the operation, against the records);
                // the reference - everything accepted before this operation's own record - is the fall-back
                std::vector<int> before = pending;
                if (!before.empty() && recs[before.back()].op == cur_op)
                    before.pop_back();
                size_t consumed = 0; // bytes that earlier rotations of this operation already took
                for (auto &r0 : op_rot)
                    consumed += r0.content.size();
                std::string ref = rec_stream(before);
                cur_X_expected = consumed <= ref.size() ? ref.substr(consumed) : std::string();
                {
                    std::string now;
                    if (logdir::read_file(logdir_path + "/" + name, now)) {
                        std::string all = rec_stream(pending);
                        if (consumed <= all.size() && all.compare(consumed, now.size(), now) == 0
                            && consumed + now.size() <= all.size())
                            cur_X_expected = now;
                    }
                }
                cur_X_mtime = logdir::mtime_ns(logdir_path + "/" + name);
                op_rot.push_back({ name, cur_X_expected, cur_X_mtime });
                if (is("C06") && P.N == 1 && !fault_mode)
                    fail("rotated-with-n1", "a rotated file (" + name + ") was produced although the file-count limit is 1");
            }
        }
        // a rotation done by copy (Qt's fall-back when the rename fails): the source is removed after the
        // copy; whatever unknown rotated name exists at that moment is this operation's rotated file
        if (b.call == sim::FS_UNLINK && b.path && active_rel == b.path) {
            for (auto &n : logdir::list_files(logdir_path)) {
                logdir::RotName rn = logdir::parse_rotated(n, stem, suffix);
                if (!rn.ok || rn.gz || foreign.count(n))
                    continue;
                bool known = false;
                for (auto &sg : segs)
                    if (sg.present && sg.plain_name == n)
                        known = true;
                for (auto &r0 : op_rot)
                    if (r0.name == n)
                        known = true;
                if (known)
                    continue;
                std::string now;
                if (logdir::read_file(logdir_path + "/" + n, now)) {
                    OpRot r0 { n, now, logdir::mtime_ns(logdir_path + "/" + n) };
                    r0.by_copy = true;
                    op_rot.push_back(r0);
                }
            }
        }
        for (auto &r0 : op_rot)
            if (r0.by_copy) {
                std::string now;
                if (logdir::read_file(logdir_path + "/" + r0.name, now) && now.size() > r0.content.size())
                    r0.content = now;
            }
        if (!cur_X.empty() && (is("C08") || (is("C10") && !fault_mode)))
            check_ordering_clause(b);
        if (take_snapshots)
            snapshot_crash(b, 0, nullptr);
        boundary_in_op++;
    }

    // C08 (ii): from the moment the rename made X appear, every state must hold the
    // intact plain X or a complete, correct X.gz
    void check_ordering_clause(const sim::FsBoundary &b)
    {
        std::string plain, gz;
        bool have_plain = logdir::read_file(logdir_path + "/" + cur_X, plain);
        bool plain_ok = have_plain && plain == cur_X_expected;
        bool gz_ok = false;
        std::string raw, dec, err;
        if (logdir::read_file(logdir_path + "/" + cur_X + ".gz", raw))
            gz_ok = logdir::gunzip_strict(raw, dec, &err) && dec == cur_X_expected;
        if (!plain_ok && !gz_ok) {
            if (is("C08"))
                fail("original-gone-before-gz-complete",
                     std::string("after ") + b.what + " " + (b.path ? b.path : "")
                             + ": the rotated file " + cur_X + " is "
                             + (have_plain ? "altered" : "gone") + " and " + cur_X + ".gz is "
                             + (raw.empty() ? "missing or empty" : ("not a complete correct gzip (" + err + ")")));
        }
    }

    void snapshot_crash(const sim::FsBoundary &b, int torn, const char *payload)
    {
        Crash c;
        c.op = cur_op;
        c.b = boundary_in_op;
        c.torn = torn;
        c.what = std::string(b.what) + " " + (b.path ? b.path : "") + (b.path2 ? std::string(" > ") + b.path2 : "");
        c.snap = observe_dir(logdir_path);
        c.kP = lenA_prev + written_this_op;
        if (torn > 0) {
            // only `torn` bytes of this write reached the file
            bool found = false;
            for (auto &f : c.snap)
                if (f.name == active_name) {
                    f.raw.append(payload, (size_t)torn);
                    found = true;
                }
            if (!found) {
                FileObs f;
                f.name = active_name;
                f.raw.assign(payload, (size_t)torn);
                f.mtime = sim::wall_now();
                c.snap.push_back(f);
            }
            c.kP += (size_t)torn;
        }
        c.cur_X = cur_X;
        c.cur_X_expected = cur_X_expected;
        c.pending = pending;
        c.op_rot = op_rot;
        c.wall = sim::wall_now();
        crashes.push_back(std::move(c));
    }

    // ----------------------------------------------------- model: after an op --
    void after_op(const std::string &kind, bool flushed)
    {
        Snapshot snap = observe_dir(logdir_path);
        auto rot = rotated_in(snap);
        const FileObs *act = find(snap, active_name);
        bool retention = P.N >= 2;

        // 1. disappeared segments
        for (auto &s : segs) {
            if (!s.present)
                continue;
            if (rot.count(s.plain_name)) {
                // Still a file of that name - but with other content: the old file was removed and the name
                // taken again by a later rotation. Only C09 forbids reusing a name (it is judged there, below);
                // for the other properties this is a removal followed by a new rotated file.
                auto &o = rot[s.plain_name];
                bool reused = o.ok && o.content != s.content && s.created_op < cur_op && !is("C09") && !is("C08");
                if (!reused)
                    continue;
            }
            s.present = false;
            removals++;
            res.vanished[cur_op].insert(s.plain_name);
            projh("rm");
            if (fault_mode) {
                if (!retention)
                    fail("rotated-file-vanished", "rotated file " + s.plain_name + " disappeared although no retention limit is in force");
                continue;
            }
            if (is("C05") && !retention)
                fail("rotated-file-vanished",
                     "rotated file " + s.plain_name + " disappeared although no retention limit is in force (N="
                             + std::to_string(P.N) + ")");
            if (is("C06") || is("C05")) {
                if (P.N <= 0)
                    fail("deleted-without-limit", "rotated file " + s.plain_name + " was deleted with N=" + std::to_string(P.N));
                for (auto &o : segs)
                    if (o.present && rot.count(o.plain_name) && o.order < s.order && o.created_op < cur_op) {
                        bool tie = false;
                        auto it = rot.find(o.plain_name);
                        if (it != rot.end() && it->second.mtime == s.mtime)
                            tie = true;
                        for (auto &o2 : segs)
                            if (&o2 != &s && o2.mtime == s.mtime)
                                tie = true;
                        fail("victim-not-oldest",
                             "retention removed " + s.plain_name + " (rotation #" + std::to_string(s.order)
                                     + ") while the older " + o.plain_name + " (rotation #" + std::to_string(o.order)
                                     + ") survives" + (tie ? " [file timestamps tie]" : ""),
                             std::string("victim-not-oldest/") + (tie ? "mtime-tie" : "distinct-mtimes"));
                        break;
                    }
            }
        }

        // creating the model segment of a rotated name that is present now (shared by 1b and 2)
        auto make_segment = [&](const std::string &name) {
            RotObs &o = rot[name];
            rotations++;
            projh("rot");
            if (o.gz)
                compressions++;
            if (o.rn.index > max_index)
                max_index = o.rn.index;
            if (!o.ok) {
                if (is("C05") || is("C08") || fault_mode)
                    fail("bad-gzip", "compressed rotated file " + name + ".gz: " + o.err);
                // cannot attribute content; treat as taking everything but the newest record
            }
            // find the record-boundary prefix of pending that equals the content
            size_t take = std::string::npos;
            {
                std::string acc;
                if (o.content.empty())
                    take = 0;
                for (size_t j = 0; j < pending.size() && take == std::string::npos; j++) {
                    acc += recs[pending[j]].bytes;
                    acc += '\n';
                    if (acc.size() == o.content.size()) {
                        if (acc == o.content)
                            take = j + 1;
                        break;
                    }
                    if (acc.size() > o.content.size())
                        break;
                }
            }
            Segment s;
            s.tainted = active_tainted;
            active_tainted = false;
            s.plain_name = name;
            s.date = o.rn.date;
            s.index = o.rn.index;
            s.order = next_order++;
            s.created_op = cur_op;
            s.mtime = o.mtime;
            for (auto &o2 : segs)
                if (o2.present && o2.mtime == s.mtime)
                    tie_rotations++;
            if (take == std::string::npos) {
                if (o.ok && (is("C05") || is("C08") || fault_mode)) {
                    std::string exp = rec_stream(pending);
                    std::string why = "is not a whole-record prefix of what the active file held";
                    if (exp.compare(0, o.content.size(), o.content) == 0)
                        why = "ends in the middle of a record (a record was split across files)";
                    else if (o.content.size() > exp.size())
                        why = "holds more than was ever written to the active file";
                    fail(is("C08") ? "gz-content-mismatch" : "rotated-content-mismatch",
                         "rotated file " + name + (o.gz ? ".gz" : "") + " (" + std::to_string(o.content.size())
                                 + " bytes) " + why);
                }
                // resynchronise: assume the rotation took every pending record but this operation's own
                std::vector<int> keep;
                if (!pending.empty() && recs[pending.back()].op == cur_op && kind == "write")
                    keep.push_back(pending.back());
                s.recs.assign(pending.begin(), pending.end() - keep.size());
                s.content = o.content;
                pending = keep;
            } else {
                s.recs.assign(pending.begin(), pending.begin() + take);
                s.content = o.content;
                pending.erase(pending.begin(), pending.begin() + take);
            }
            // C09: names, days, uniqueness
            if (is("C09") && (P.options & 2) && P.N != 1) {
                int64_t day = -1;
                bool mixed = false;
                for (int id : s.recs) {
                    if (day < 0)
                        day = recs[id].day;
                    else if (recs[id].day != day)
                        mixed = true;
                }
                if (mixed)
                    fail("days-share-file", "rotated file " + name + " holds records of different calendar days",
                         s.tainted ? "days-share-file/late-flush" : "days-share-file");
                if (day >= 0 && !mixed) {
                    std::string want = date_string(day);
                    if (want != s.date)
                        fail("wrong-date-in-name",
                             "rotated file " + name + " holds records of " + want + " but is named after " + s.date
                                     + (s.tainted ? " [its last records were flushed to the file on a later day]" : ""),
                             s.tainted ? "wrong-date-in-name/late-flush" : "wrong-date-in-name");
                }
                for (auto &old : segs)
                    if (old.date == s.date && old.index >= s.index)
                        fail("index-not-increasing",
                             "rotated file " + name + " was produced after " + old.plain_name
                                     + " of the same day but does not have a higher index",
                             std::string("index-not-increasing/") + (old.present ? "older-present" : "after-removal"));
                auto &seen = names_seen[name];
                for (auto &c : seen)
                    if (c != s.content)
                        fail("name-reused", "rotated name " + name + " was used before for different content",
                             "name-reused");
            }
            names_seen[name].push_back(s.content);
            if ((is("C06") || fault_mode) && P.N == 1 && !fault_mode)
                fail("rotated-with-n1", "a rotated file (" + name + ") was produced although the file-count limit is 1");
            // C07: size of the rotated file
            if (is("C07") && P.L > 0 && P.N != 1 && (long)s.content.size() > P.L && s.recs.size() != 1)
                fail("file-exceeds-limit",
                     "rotated file " + name + " holds " + std::to_string(s.content.size()) + " bytes in "
                             + std::to_string(s.recs.size()) + " records; limit is " + std::to_string(P.L));
            segs.push_back(s);
        };

        // 1b. rotations of this very operation, in order: a name that is already gone again took its records
        // with it (retention at work, to be judged); one that is still there becomes a segment right here, so
        // that the records are handed out in rotation order even if one operation rotated more than once
        std::set<std::string> done_here;
        {
            for (auto &r : op_rot) {
                if (rot.count(r.name)) {
                    bool known = false;
                    for (auto &sg : segs)
                        if (sg.present && sg.plain_name == r.name)
                            known = true;
                    if (!known && !done_here.count(r.name)) {
                        make_segment(r.name);
                        done_here.insert(r.name);
                    }
                    continue;
                }
                // the records that went into the vanished file leave the model; the rest stays expected
                size_t acc = 0, j = 0;
                while (j < pending.size() && acc < r.content.size()) {
                    acc += recs[pending[j]].bytes.size() + 1;
                    j++;
                }
                std::vector<int> keep(pending.begin() + j, pending.end());
                rotations++;
                removals++;
                projh("rot-rm");
                if ((is("C05") || fault_mode) && !retention)
                    fail("rotated-file-vanished",
                         "the file just rotated to " + r.name + " was deleted although no retention limit is in force");
                if ((is("C06") || is("C05")) && !fault_mode) {
                    if (P.N <= 0)
                        fail("deleted-without-limit", "the file just rotated to " + r.name + " was deleted with N=" + std::to_string(P.N));
                    for (auto &o : segs)
                        if (o.present && rot.count(o.plain_name) && !done_here.count(o.plain_name)) {
                            bool tie = o.mtime == r.mtime;
                            fail("victim-not-oldest",
                                 "retention removed the file just rotated (" + r.name + ") while the older " + o.plain_name
                                         + " survives" + (tie ? " [file timestamps tie]" : ""),
                                 std::string("victim-not-oldest/") + (tie ? "mtime-tie" : "distinct-mtimes"));
                            break;
                        }
                }
                names_seen[r.name].push_back(r.content);
                pending = keep;
            }
        }

        // 2. new rotated names take a prefix of the pending records
        std::vector<std::string> fresh;
        for (auto &kv : rot) {
            bool known = false;
            for (auto &s : segs)
                if (s.present && s.plain_name == kv.first)
                    known = true;
            if (!known)
                fresh.push_back(kv.first);
        }
        std::sort(fresh.begin(), fresh.end(), [&](const std::string &a, const std::string &b) {
            auto &x = rot[a].rn, &y = rot[b].rn;
            if (x.date != y.date)
                return x.date < y.date;
            return x.index < y.index;
        });
        for (auto &name : fresh)
            if (!done_here.count(name))
                make_segment(name);
        // a rotated name present both plain and compressed after a completed operation: a reader that
        // decompresses the compressed files reads those records twice
        if ((is("C05") || is("C08")) && !fault_mode)
            for (auto &kv : rot)
                if (kv.second.both)
                    fail("rotated-file-duplicated",
                         "rotated file " + kv.first + " exists both uncompressed and as " + kv.first
                                 + ".gz after the operation completed: its records would be read twice");
        // known segments: content must not change (incl. after compression)
        for (auto &s : segs) {
            if (!s.present || s.created_op == cur_op)
                continue;
            auto it = rot.find(s.plain_name);
            if (it == rot.end())
                continue;
            if (!it->second.ok) {
                if (is("C05") || is("C08") || fault_mode)
                    fail("bad-gzip", "compressed rotated file " + s.plain_name + ".gz: " + it->second.err);
            } else if (it->second.content != s.content) {
                if (is("C05") || is("C09") || is("C08") || fault_mode)
                    fail("rotated-file-changed", "rotated file " + s.plain_name + " changed its content after rotation",
                         is("C09") ? "name-reused" : "rotated-file-changed");
            }
        }

        // 3. active file
        std::string expA = rec_stream(pending);
        std::string A = act ? act->raw : std::string();
        if (is("C05") || is("C06") || fault_mode) {
            if (flushed) {
                if (A != expA)
                    fail("active-content-mismatch", describe_mismatch("active file", A, expA));
            } else if (expA.compare(0, A.size(), A) != 0 || A.size() > expA.size()) {
                fail("active-content-mismatch", describe_mismatch("active file (unflushed)", A, expA));
            }
        }
        // 4. C06 count and foreign files
        if (is("C06")) {
            if (P.N >= 2 && kind == "write") {
                int count = (act ? 1 : 0) + (int)rot.size();
                if (count > P.N)
                    fail("too-many-files",
                         std::to_string(count) + " log files exist after a write; the limit is " + std::to_string(P.N));
            }
            for (auto &kv : foreign) {
                const FileObs *f = find(snap, kv.first);
                if (!f)
                    fail("foreign-file-touched", "file " + kv.first + " (not this sink's naming scheme) was removed");
                else if (f->raw != kv.second.first || f->mtime != kv.second.second)
                    fail("foreign-file-touched", "file " + kv.first + " (not this sink's naming scheme) was modified");
            }
        }
        // 5. C07 active size
        if (is("C07") && P.L > 0 && P.N != 1 && (long)expA.size() > P.L && pending.size() != 1)
            fail("file-exceeds-limit",
                 "active file holds " + std::to_string(expA.size()) + " bytes in " + std::to_string(pending.size())
                         + " records; limit is " + std::to_string(P.L));
        // 6. C09 active days
        if (is("C09") && (P.options & 2) && P.N != 1) {
            int64_t day = -1;
            for (int id : pending) {
                if (day < 0)
                    day = recs[id].day;
                else if (recs[id].day != day)
                    fail("days-share-file",
                         "the active file holds records of " + date_string(day) + " and " + date_string(recs[id].day)
                                 + (active_tainted ? " [earlier records were flushed to the file on a later day]" : ""),
                         active_tainted ? "days-share-file/late-flush" : "days-share-file/active");
            }
        }
        if (getenv("FSIM_TRACE")) {
            fprintf(stdout, "# op %d %s wall=%lld.%03lld day=%lld pending=%zu |", cur_op, kind.c_str(),
                    (long long)(sim::wall_now() / sim::SEC), (long long)((sim::wall_now() / sim::MS) % 1000),
                    (long long)today(), pending.size());
            for (auto &f : snap)
                fprintf(stdout, " %s(%zu,mt=%lld.%03lld)", f.name.c_str(), f.raw.size(), (long long)(f.mtime / sim::SEC),
                        (long long)((f.mtime / sim::MS) % 1000));
            fprintf(stdout, "\n");
        }
        if (written_this_op > 0) {
            int64_t tday = today();
            for (int id : pending)
                if (recs[id].day < tday && !active_tainted) {
                    active_tainted = true;
                    late_flush_taints++;
                }
        }
        if (pending.empty())
            active_tainted = false;
        lenA_prev = A.size();
        written_this_op = 0;
        cur_X.clear();
        op_rot.clear();
        boundary_in_op = 0;
    }

    // calendar day in the run's local time zone
    int64_t local_day(int64_t wall_ns) const { return ((wall_ns / sim::SEC) + (int64_t)P.tz_min * 60) / 86400 - ((((wall_ns / sim::SEC) + (int64_t)P.tz_min * 60) % 86400 < 0) ? 1 : 0); }
    int64_t today() const { return local_day(sim::wall_now()); }

    static std::string date_string(int64_t day)
    {
        long long z = day + 719468;
        long long era = (z >= 0 ? z : z - 146096) / 146097;
        unsigned doe = (unsigned)(z - era * 146097);
        unsigned yoe = (doe - doe / 1460 + doe / 36524 - doe / 146096) / 365;
        long long y = (long long)yoe + era * 400;
        unsigned doy = doe - (365 * yoe + yoe / 4 - yoe / 100);
        unsigned mp = (5 * doy + 2) / 153;
        unsigned d = doy - (153 * mp + 2) / 5 + 1;
        unsigned m = mp < 10 ? mp + 3 : mp - 9;
        if (m <= 2)
            y++;
        char buf[32];
        snprintf(buf, sizeof buf, "%04lld-%02u-%02u", y, m, d);
        return buf;
    }

    static std::string describe_mismatch(const std::string &what, const std::string &got, const std::string &exp)
    {
        size_t i = 0;
        while (i < got.size() && i < exp.size() && got[i] == exp[i])
            i++;
        std::ostringstream o;
        o << what << " holds " << got.size() << " bytes, expected " << exp.size() << "; first difference at byte " << i;
        auto show = [](const std::string &s, size_t at) {
            std::string r;
            for (size_t k = at; k < s.size() && k < at + 24; k++)
                r += (s[k] == '\n') ? '|' : ((unsigned char)s[k] < 32 || (unsigned char)s[k] > 126 ? '?' : s[k]);
            return r;
        };
        o << " (got '" << show(got, i) << "' expected '" << show(exp, i) << "')";
        return o.str();
    }

    // --------------------------------------------------------------- the run --
    void do_write(const FOp &op)
    {
        Rec r;
        r.id = (int)recs.size();
        r.bytes = make_record(r.id, op.n, op.cls);
        r.op = cur_op;
        QMessageLogContext ctx("f.cpp", 1, "void f()", op.cat ? "app.core" : "default");
        QString text = QString::fromUtf8(r.bytes.data(), (int)r.bytes.size());
        bool fmt = op.fmt && !text.isEmpty(); // (an empty formatted text and "not formatted" are told apart by null-ness only)
        LogMessage lmsg(QtDebugMsg, ctx, fmt ? QStringLiteral("raw text of another length") : text);
        if (fmt)
            lmsg.setFormattedMessage(text);
        r.day = today();
        recs.push_back(r);
        pending.push_back(r.id);
        if (fmt && decoy) {
            lmsg.setFormattedMessage(QStringLiteral("d"));
            decoy->send(lmsg);
            lmsg.setFormattedMessage(text);
        }
        const size_t w0 = written_this_op;
        const qint64 b0 = buffered_bytes();
        if (sink)
            sink->send(lmsg);
        // Was the record accepted - passed to write(2) or kept in the device's write buffer - or was it
        // refused because the device was closed at the moment of the write (it may be open again now:
        // a rotation right after the write reopens it)?
        const qint64 accepted = (qint64)(written_this_op - w0) + buffered_bytes() - b0;
        bool reached = accepted >= (qint64)r.bytes.size() + 1;
        if (!reached && !device_open()) {
            // the byte count can miss a record only when write(2) itself was refused; then what the
            // directory holds decides
            std::string have;
            for (auto &r0 : op_rot)
                have += r0.content;
            std::string A;
            logdir::read_file(active_abs, A);
            have += A;
            reached = have.size() >= rec_stream(pending).size();
        }
        if (!reached && device_open() && accepted > 0 && !fault_mode) {
            fail("record-truncated",
                 "record r" + std::to_string(r.id) + ": only " + std::to_string(accepted) + " of its " + std::to_string(r.bytes.size() + 1)
                         + " bytes were handed to the file");
        }
        if (!reached) {
            // refused: it never reached the file. After an injected failure that is a legitimate
            // outcome (the file could not be reopened); in a fault-free history nothing entitles
            // the sink to drop a record
            if (!fault_mode && (is("C05") || is("C06") || is("C07") || is("C09")))
                fail("record-refused", "record r" + std::to_string(r.id) + " was dropped: the sink's file is closed although no failure was injected");
            pending.pop_back();
            refused++;
        }
    }

    void do_advance(const FOp &op)
    {
        if (op.to) {
            int64_t w = sim::wall_now() + (int64_t)P.tz_min * 60 * sim::SEC; // local wall clock
            int64_t into = w % sim::DAY;
            int64_t target = sim::DAY - 1 * sim::MS; // 23:59:59.999
            if (into < target)
                sim::clock_advance(target - into);
        }
        if (op.days > 0) {
            if (op.wj) {
                sim::wall_jump((int64_t)op.days * sim::DAY); // the clock was set: only the wall clock moves
                res.probes["wall_clock_steps"]++;
            } else
                sim::clock_advance((int64_t)op.days * sim::DAY);
        }
        if (op.ms > 0)
            sim::clock_advance(op.ms * sim::MS);
    }

    void run_ops(bool collect_sites)
    {
        collecting_sites = collect_sites;
        for (size_t i = 0; i < P.ops.size() && res.ok; i++) {
            const FOp &op = P.ops[i];
            cur_op = (int)i;
            sim::fs_begin_op((int)i);
            sim::FsFault ff;
            if (op.fault_call >= 0) {
                ff.call = op.fault_call;
                ff.nth = op.fault_nth;
                ff.err = op.fault_errno;
            }
            sim::fs_set_fault(ff);
            projh(op.k);
            if (take_snapshots) {
                pre_segs.clear();
                for (auto &sg : segs)
                    if (sg.present)
                        pre_segs.push_back({ sg.plain_name, sg.content });
                crashes.clear();
            }
            std::map<std::string, std::pair<std::string, int64_t>> sib_before;
            if (sib && op.k != "swrite" && op.k != "advance")
                sib_before = party_files(true);
            if (op.k == "swrite") {
                do_swrite(op);
            } else if (op.k == "write") {
                do_write(op);
                after_op("write", false);
            } else if (op.k == "advance") {
                do_advance(op);
            } else if (op.k == "restart") {
                sink.reset();
                iosink = nullptr;
                after_op("close", true);
                if (op.rmobst && P.obstacle > 0) {
                    // somebody cleared the obstacle away while the program was not running
                    std::string n = stem + ".2026-01-01." + std::to_string(P.obstacle) + (suffix.empty() ? "" : "." + suffix);
                    if (P.obstacle_gz)
                        n += ".gz";
                    if (rmdir((logdir_path + "/" + n).c_str()) == 0)
                        res.probes["obstacle_removed_before_restart"]++;
                }
                make_sink();
                after_op("open", true);
            } else if (op.k == "checkpoint") {
                if (sink)
                    sink->flush();
                after_op("checkpoint", true);
            }
            if (sib && op.k != "swrite" && op.k != "advance" && is("C06") && res.ok) {
                auto sib_after = party_files(true);
                if (sib_after != sib_before)
                    fail("foreign-file-touched",
                         "operation '" + op.k + "' of the sink for " + active_name + " changed files of the sibling sink " + sib_name,
                         "foreign-file-touched/sibling");
            }
            if (op.fault_call >= 0 && sim::fs_fault_fired())
                res.probes["fault_fired"]++;
            if (collect_sites) {
                static const int calls[] = { sim::FS_OPEN_CREATE, sim::FS_RENAMEAT2, sim::FS_RENAME, sim::FS_LINK,
                                             sim::FS_UNLINK };
                for (int c : calls)
                    for (int n = 0; n < sim::fs_call_count(c); n++)
                        fault_sites.push_back({ (int)i, c, n });
                for (auto &g : gz_write_sites)
                    fault_sites.push_back(g);
                gz_write_sites.clear();
            }
            if (take_snapshots && crash_eval && res.ok)
                crash_eval(*this);
        }
        cur_op = (int)P.ops.size();
        sim::fs_reset_counts();
        sim::fs_set_fault(sim::FsFault());
        sink.reset();
        iosink = nullptr;
        if (sib) {
            suspended = true;
            sib.reset();
            suspended = false;
        }
        if (res.ok)
            after_op("final", true);
    }

    void finish_probes()
    {
        res.probes["rotations"] = rotations;
        res.probes["retention_removals"] = removals;
        res.probes["compressed_files"] = compressions;
        res.probes["rotation_inside_mtime_tie"] = tie_rotations;
        res.probes["index_crossed_9_to_10"] = max_index >= 10 ? 1 : 0;
        res.probes["index_crossed_99_to_100"] = max_index >= 100 ? 1 : 0;
        res.probes["records"] = (int)recs.size();
        res.probes["records_refused_device_closed"] = refused;
        res.probes["record_flushed_on_later_day"] = late_flush_taints;
        int days = 0;
        if (!recs.empty())
            days = (int)(recs.back().day - recs.front().day);
        res.probes["day_changes"] = days;
        res.probes["sibling_sink_records"] = sib_records;
        res.probes["restarts"] = 0;
        for (auto &op : P.ops)
            if (op.k == "restart")
                res.probes["restarts"]++;
        res.probes["short_writes"] = (int)sim::shm()->counters[sim::C_FS_SHORT_WRITE];
        res.probes["eintr"] = (int)sim::shm()->counters[sim::C_FS_EINTR];
        res.probes["rename_fell_back_to_link"] = (int)sim::shm()->counters[sim::C_FS_LINK];
        res.probes["errno_injected"] = (int)sim::shm()->counters[sim::C_FS_ERRNO_INJECTED];
        res.probes["boundaries"] = (int)sim::shm()->counters[sim::C_FS_BOUNDARY];
        res.proj = rotations > 0 ? proj : 0;
        res.sim_days = (sim::mono_now() - sim_start) / (double)sim::DAY;
    }
};


// ------------------------------------------------------------- crash checks --
size_t complete_len(const Engine &e, const std::vector<int> &pending, size_t k)
{
    size_t off = 0;
    for (int id : pending) {
        size_t n = e.recs[id].bytes.size() + 1;
        if (off + n > k)
            break;
        off += n;
    }
    return off;
}

std::string crash_where(const Engine::Crash &c)
{
    return "crash after boundary #" + std::to_string(c.b) + " (" + c.what + ")"
            + (c.torn ? " with only " + std::to_string(c.torn) + " bytes of that write on disk" : "");
}

// Order new rotated files by matching their contents against the expected byte stream; what cannot be placed
// keeps the (date, index) order at the end. Names need not reflect rotation order: a name can be taken again
// once retention has removed its former owner.
template<typename Map>
std::vector<std::string> order_by_content(std::vector<std::string> names, Map &rot, const std::string &want, size_t start = 0)
{
    std::vector<std::string> out;
    std::vector<bool> used(names.size(), false);
    size_t p = start;
    for (;;) {
        bool placed = false;
        for (size_t i = 0; i < names.size(); i++) {
            if (used[i] || !rot[names[i]].ok)
                continue;
            const std::string &c = rot[names[i]].content;
            if (c.empty() || (p + c.size() <= want.size() && want.compare(p, c.size(), c) == 0)) {
                used[i] = true;
                out.push_back(names[i]);
                p += c.size();
                placed = true;
                break;
            }
        }
        if (!placed)
            break;
    }
    for (size_t i = 0; i < names.size(); i++)
        if (!used[i])
            out.push_back(names[i]);
    return out;
}

// (a) every record that had completely reached write(2) is in an intact file
bool crash_check_a(Engine &e, const Engine::Crash &c, std::string *why, std::string *T_out)
{
    auto rot = e.rotated_in(c.snap);
    bool retention = e.P.N >= 2;
    std::set<std::string> old_names;
    for (auto &ps : e.pre_segs) {
        old_names.insert(ps.first);
        auto it = rot.find(ps.first);
        if (it == rot.end()) {
            if (!retention) {
                *why = "rotated file " + ps.first + " is gone (no retention limit in force)";
                return false;
            }
            continue;
        }
        if (!it->second.ok) {
            *why = "rotated file " + ps.first + ".gz is not a valid gzip stream: " + it->second.err;
            return false;
        }
        if (it->second.content != ps.second) {
            if (retention) {
                old_names.erase(ps.first); // removed by retention, the name taken again by this rotation
                continue;
            }
            *why = "rotated file " + ps.first + " has different content";
            return false;
        }
    }
    std::vector<std::string> fresh;
    for (auto &kv : rot)
        if (!old_names.count(kv.first))
            fresh.push_back(kv.first);
    std::sort(fresh.begin(), fresh.end(), [&](const std::string &a, const std::string &b) {
        auto &x = rot[a].rn, &y = rot[b].rn;
        if (x.date != y.date)
            return x.date < y.date;
        return x.index < y.index;
    });
    if (!c.cur_X.empty() && !rot.count(c.cur_X)) {
        *why = "the file just rotated to " + c.cur_X + " exists neither plain nor compressed";
        return false;
    }
    fresh = order_by_content(fresh, rot, e.rec_stream(c.pending));
    std::string T;
    for (auto &n : fresh) {
        if (!rot[n].ok) {
            *why = "the new rotated file " + n + ".gz is not a valid gzip stream (" + rot[n].err
                    + ") and the uncompressed file is gone";
            return false;
        }
        T += rot[n].content;
    }
    const FileObs *act = find(c.snap, e.active_name);
    if (act)
        T += act->raw;
    std::string Pstream = e.rec_stream(c.pending);
    size_t need_drop = 0;
    if (retention) {
        // rotated files made earlier in this very operation that the retention limit has already removed
        // again took their (whole) records with them
        std::string gone;
        for (auto &r0 : c.op_rot)
            if (!rot.count(r0.name))
                gone += r0.content;
        if (!gone.empty() && Pstream.compare(0, gone.size(), gone) == 0) {
            Pstream = Pstream.substr(gone.size());
            need_drop = gone.size();
        }
    }
    if (T.size() > Pstream.size() || Pstream.compare(0, T.size(), T) != 0) {
        *why = Engine::describe_mismatch("records recoverable after the crash", T, Pstream);
        return false;
    }
    size_t need = complete_len(e, c.pending, c.kP);
    need = need > need_drop ? need - need_drop : 0;
    if (T.size() < need) {
        *why = "only " + std::to_string(T.size()) + " bytes of the current file's records are recoverable, but "
                + std::to_string(need) + " bytes of whole records had reached the file";
        return false;
    }
    if (T_out)
        *T_out = T;
    return true;
}

// (b) a sink started on the crashed directory keeps the old records and logs on
bool crash_check_b(Engine &e, const Engine::Crash &c, std::string *why)
{
    std::string scratch = e.root + "/__restart";
    std::string ldir = scratch;
    rm_rf(scratch);
    mkdir(scratch.c_str(), 0700);
    for (auto &f : c.snap) {
        std::string path = ldir + "/" + f.name;
        FILE *fp = fopen(path.c_str(), "wb");
        if (!fp)
            continue;
        fwrite(f.raw.data(), 1, f.raw.size(), fp);
        fclose(fp);
        sim::fs_stamp(path.c_str(), f.mtime);
    }
    auto rot0 = e.rotated_in(c.snap);
    const FileObs *act0 = find(c.snap, e.active_name);
    std::string A0 = act0 ? act0->raw : std::string();

    sim::ClockState cs = sim::clock_save();
    sim::clock_advance(1 * sim::SEC);
    std::string NEW;
    {
        QString path = QString::fromStdString(ldir + "/" + e.active_name);
        RotatingFileSink::Options opts = RotatingFileSink::Options(e.P.options);
        QSharedPointer<Sink> s2;
        if (e.P.via_pipeline) {
            SimplePipeline pl;
            pl.sendToFile(path, e.P.L, e.P.N, opts);
            auto hs = static_cast<const Pipeline &>(pl).handlers();
            s2 = hs.isEmpty() ? QSharedPointer<Sink>() : hs.first().dynamicCast<Sink>();
        } else {
            s2 = RotatingFileSinkPtr::create(path, e.P.L, e.P.N, opts);
        }
        for (int j = 0; j < e.P.restart_writes; j++) {
            std::string txt = "n" + std::to_string(j) + ":after-restart";
            QMessageLogContext ctx("f.cpp", 1, "void f()", "default");
            LogMessage lmsg(QtDebugMsg, ctx, QString::fromStdString(txt));
            if (s2)
                s2->send(lmsg);
            NEW += txt + "\n";
            sim::clock_advance(3 * sim::MS);
        }
        s2.reset();
    }
    Snapshot s1 = observe_dir(ldir);
    sim::clock_restore(cs);
    rm_rf(scratch);
    rmdir(scratch.c_str());

    auto rot1 = e.rotated_in(s1);
    bool retention = e.P.N >= 2;
    std::set<std::string> oldn;
    for (auto &kv : rot0) {
        oldn.insert(kv.first);
        if (!kv.second.ok)
            continue; // already judged by (a)
        auto it = rot1.find(kv.first);
        if (it != rot1.end() && !it->second.ok) {
            // the name survives only as an unreadable .gz: the restarted sink deleted the intact
            // uncompressed file and kept its incomplete compressed copy - not a retention removal
            // (retention removes a rotated segment, it does not swap it for garbage)
            *why = "after the restart the intact rotated file " + kv.first + " is gone while its incomplete compressed copy "
                    + kv.first + ".gz was kept (" + it->second.err + ")";
            return false;
        }
        if (it == rot1.end() || !it->second.ok) {
            if (!retention) {
                *why = "after the restart rotated file " + kv.first + " is gone or unreadable (no retention limit in force)";
                return false;
            }
            continue;
        }
        if (it->second.content != kv.second.content) {
            if (retention) {
                oldn.erase(kv.first);
                continue;
            }
            *why = "after the restart rotated file " + kv.first + " has different content";
            return false;
        }
    }
    std::vector<std::string> fresh;
    for (auto &kv : rot1)
        if (!oldn.count(kv.first))
            fresh.push_back(kv.first);
    std::sort(fresh.begin(), fresh.end(), [&](const std::string &a, const std::string &b) {
        auto &x = rot1[a].rn, &y = rot1[b].rn;
        if (x.date != y.date)
            return x.date < y.date;
        return x.index < y.index;
    });
    fresh = order_by_content(fresh, rot1, A0 + NEW);
    std::string T;
    for (auto &n : fresh) {
        if (!rot1[n].ok) {
            *why = "after the restart the new rotated file " + n + ".gz is not valid gzip: " + rot1[n].err;
            return false;
        }
        T += rot1[n].content;
    }
    const FileObs *act1 = find(s1, e.active_name);
    if (act1)
        T += act1->raw;
    std::string want = A0 + NEW;
    if (T != want) {
        // with a retention limit the restarted sink may legitimately drop whole new files too
        if (retention && !T.empty() && T.size() < want.size()
            && want.compare(want.size() - T.size(), T.size(), T) == 0)
            return true;
        *why = Engine::describe_mismatch("after the restart the current records", T, want);
        return false;
    }
    return true;
}

void eval_crashes(Engine &e)
{
    const FOp *op = e.cur_op < (int)e.P.ops.size() ? &e.P.ops[e.cur_op] : nullptr;
    e.suspended = true;
    for (auto &c : e.crashes) {
        if (!e.P.enumerate) {
            if (!op || op->crash_b < 0 || op->crash_b != c.b || op->crash_torn != c.torn)
                continue;
        }
        e.crash_points++;
        std::string why;
        if (!crash_check_a(e, c, &why, nullptr)) {
            e.fail("crash-loses-records", crash_where(c) + ": " + why);
        } else if (!crash_check_b(e, c, &why)) {
            e.fail("restart-after-crash-loses-records", crash_where(c) + ": " + why);
        }
        if (!e.res.ok) {
            e.res.at_op = c.op;
            e.res.crash_b = c.b;
            e.res.crash_torn = c.torn;
            break;
        }
    }
    e.crashes.clear();
    e.suspended = false;
}

const std::vector<int> &errno_menu(int call)
{
    // the last entry: the rename fails as a whole - Qt's fall-backs (link, copy) cannot create the
    // destination either
    static const std::vector<int> rn2 = { EACCES, EPERM, EEXIST, ENOSPC, EIO, EXDEV, EROFS, EBUSY, EINVAL,
                                          EACCES | sim::FS_ERR_STICKY };
    static const std::vector<int> rn = { EACCES, EXDEV, EIO };
    static const std::vector<int> ln = { EPERM, EACCES, EEXIST, EMLINK, EXDEV };
    static const std::vector<int> ul = { EACCES, EPERM, EBUSY, EIO, EROFS };
    static const std::vector<int> oc = { EACCES, EMFILE, ENOSPC, EROFS, ENFILE };
    static const std::vector<int> wr = { ENOSPC, EIO, EDQUOT };
    switch (call) {
    case sim::FS_WRITE:
        return wr;
    case sim::FS_RENAMEAT2:
        return rn2;
    case sim::FS_RENAME:
        return rn;
    case sim::FS_LINK:
        return ln;
    case sim::FS_UNLINK:
        return ul;
    default:
        return oc;
    }
}

uint64_t dir_hash(const std::string &dir, uint64_t h)
{
    for (auto &n : logdir::list_files(dir)) {
        std::string raw;
        logdir::read_file(dir + "/" + n, raw);
        // temporary files carry six random letters (QTemporaryFile): not part of the fingerprint
        if (n.size() > 7 && n[n.size() - 7] == '.') {
            bool letters = true;
            for (size_t i = n.size() - 6; i < n.size(); i++)
                if (!isalpha((unsigned char)n[i]))
                    letters = false;
            if (letters)
                continue;
        }
        h = sim::fnv1a(n.data(), n.size(), h);
        h = sim::fnv1a(raw.data(), raw.size(), h);
        int64_t mt = logdir::mtime_ns(dir + "/" + n);
        h = sim::fnv1a(&mt, sizeof mt, h);
    }
    return h;
}

Result run_single(const FPlan &P, bool crash_mode, bool fault_mode, bool collect_sites,
                  std::vector<std::array<int, 3>> *sites)
{
    sim::shm_reset();
    sim::trace_reset();
    Engine e(P);
    g_engine = &e;
    e.fault_mode = fault_mode;
    e.take_snapshots = crash_mode;
    e.crash_eval = crash_mode ? eval_crashes : nullptr;
    e.setup(); // (uses the real pid for the private directory)
    sim::set_fake_pid(4242);
    e.arm();
    e.cur_op = -1;
    e.make_sink();
    e.after_op("open", true);
    e.make_sibling();
    e.run_ops(collect_sites);
    e.finish_probes();
    if (getenv("FSIM_DUMP_EVENTS")) {
        const sim::Shm *sh = sim::shm();
        for (uint32_t i = 0; i < sh->nevents && i < sim::MAX_EVENTS; i++) {
            const sim::Event &ev = sh->events[i];
            fprintf(stdout, "# ev %u kind=%u a=%lld b=%lld c=%lld s=%s\n", i, ev.kind, (long long)ev.a, (long long)ev.b,
                    (long long)ev.c, sim::ev_str(sh, ev).c_str());
        }
    }
    e.res.hash = dir_hash(e.logdir_path, sim::trace_hash_now());
    e.res.crash_points = e.crash_points;
    sim::fs_disarm();
    sim::set_fake_pid(0);
    rm_rf(e.root);
    if (sites)
        *sites = e.fault_sites;
    g_engine = nullptr;
    return e.res;
}

// C07W: the device fills up in the middle of a record (a write of the active log file transfers half of its
// bytes, the continuation fails once). Nothing is promised about the record that met the failure, and the
// reference model of the other checks does not apply to a file with a torn record in it; what C07 still
// promises is the size bound. Judged on sizes alone, from the directory after every operation: no file may be
// longer than L unless it holds a single line (records of these plans contain no line feeds).
Result run_size_only(const FPlan &P)
{
    sim::shm_reset();
    sim::trace_reset();
    Engine e(P);
    g_engine = &e;
    e.fault_mode = true;
    e.suspended = true; // no model bookkeeping at the boundaries
    e.setup();
    sim::set_fake_pid(4242);
    e.arm();
    e.cur_op = -1;
    e.make_sink();
    auto scan = [&](int opi) {
        for (auto &n : logdir::list_files(e.logdir_path)) {
            std::string raw;
            if (!logdir::read_file(e.logdir_path + "/" + n, raw))
                continue;
            long lines = 0;
            for (char c : raw)
                if (c == '\n')
                    lines++;
            if (raw.size() && raw.back() != '\n')
                lines++;
            e.res.probes["files_measured"]++;
            if ((long)raw.size() > P.L && lines > 1 && e.res.ok) {
                e.res.ok = false;
                e.res.cls = e.res.signature = "file-exceeds-limit";
                e.res.msg = "op " + std::to_string(opi) + ": " + n + " holds " + std::to_string(raw.size()) + " bytes in "
                        + std::to_string(lines) + " lines; the limit is " + std::to_string(P.L)
                        + " (after a write of the log file was cut short and its continuation failed)";
            }
        }
    };
    int recid = 0;
    for (size_t i = 0; i < P.ops.size() && e.res.ok; i++) {
        const FOp &op = P.ops[i];
        e.cur_op = (int)i;
        sim::fs_begin_op((int)i);
        sim::FsFault ff;
        if (op.fault_call >= 0) {
            ff.call = op.fault_call;
            ff.nth = op.fault_nth;
            ff.err = op.fault_errno;
        }
        sim::fs_set_fault(ff);
        if (op.k == "write") {
            std::string bytes = make_record(recid++, op.n, op.cls);
            QMessageLogContext ctx("f.cpp", 1, "void f()", "default");
            LogMessage lmsg(QtDebugMsg, ctx, QString::fromUtf8(bytes.data(), (int)bytes.size()));
            if (e.sink)
                e.sink->send(lmsg);
        } else if (op.k == "advance") {
            e.do_advance(op);
        } else if (op.k == "restart") {
            e.sink.reset();
            e.iosink = nullptr;
            e.make_sink();
        }
        if (op.fault_call >= 0 && sim::fs_fault_fired())
            e.res.probes["active_write_cut_short_then_failed"]++;
        scan((int)i);
    }
    sim::fs_set_fault(sim::FsFault());
    e.sink.reset();
    e.iosink = nullptr;
    if (e.res.ok)
        scan((int)P.ops.size());
    e.res.probes["short_writes"] = (int)sim::shm()->counters[sim::C_FS_SHORT_WRITE];
    e.res.probes["errno_injected"] = (int)sim::shm()->counters[sim::C_FS_ERRNO_INJECTED];
    e.res.proj = e.res.hash = dir_hash(e.logdir_path, sim::trace_hash_now());
    e.res.fault_runs = 1;
    sim::fs_disarm();
    sim::set_fake_pid(0);
    rm_rf(e.root);
    g_engine = nullptr;
    return e.res;
}

} // namespace

Result run_history(const FPlan &plan)
{
    if (plan.prop == "C07W")
        return run_size_only(plan);
    if (plan.prop == "C08") {
        // fault-free pass with the ordering clause checked at every boundary ...
        bool has_fault = false;
        for (auto &op : plan.ops)
            if (op.fault_call >= 0)
                has_fault = true;
        if (has_fault)
            return run_single(plan, false, true, false, nullptr);
        std::vector<std::array<int, 3>> sites;
        Result r = run_single(plan, true, false, true, &sites);
        if (!r.ok || !plan.enumerate)
            return r;
        // ... then every single failure to create a file (the compressed file cannot be created:
        // the uncompressed one must stay)
        long fault_runs = 0;
        static const int errs[] = { EACCES, ENOSPC, EMFILE };
        // bounded: histories of modest size, at most three sites, one errno each (rotating)
        long total = 0;
        for (auto &op : plan.ops)
            if (op.k == "write")
                total += op.n;
        int used = 0, used_w = 0;
        static const int werrs[] = { ENOSPC, EIO, EDQUOT };
        for (auto &st : sites) {
            if (total > 200000)
                continue;
            if (st[1] == sim::FS_OPEN_CREATE) {
                if (used >= 3)
                    continue;
                used++;
            } else if (st[1] == sim::FS_WRITE) {
                // the compressed file was created but (part of) its content cannot be written
                if (used_w >= 3)
                    continue;
                used_w++;
            } else
                continue;
            for (int err : { st[1] == sim::FS_WRITE ? werrs[(st[0] + st[2] + used_w) % 3] : errs[(st[0] + st[2] + used) % 3] }) {
                FPlan q = plan;
                q.enumerate = false;
                q.ops[st[0]].fault_call = st[1];
                q.ops[st[0]].fault_nth = st[2];
                q.ops[st[0]].fault_errno = err;
                Result fr = run_single(q, false, true, false, nullptr);
                fault_runs++;
                if (fr.probes.count("fault_fired") && fr.probes["fault_fired"] > 0) {
                    r.probes["errno_injected"] += 1;
                    if (st[1] == sim::FS_WRITE)
                        r.probes["compressed_file_write_failed"] += 1;
                }
                if (!fr.ok) {
                    fr.at_op = st[0];
                    fr.fault_call = st[1];
                    fr.fault_nth = st[2];
                    fr.fault_errno = err;
                    fr.msg = std::string("with ") + sim::fs_call_name(st[1]) + " #" + std::to_string(st[2]) + " of operation "
                            + std::to_string(st[0]) + " failing with errno " + std::to_string(err) + " (" + strerror(err)
                            + "): " + fr.msg;
                    fr.fault_runs = fault_runs;
                    fr.probes = r.probes;
                    return fr;
                }
            }
        }
        r.fault_runs = fault_runs;
        return r;
    }
    if (plan.prop != "C10")
        return run_single(plan, false, false, false, nullptr);

    bool has_crash = false, has_fault = false;
    for (auto &op : plan.ops) {
        if (op.crash_b >= 0)
            has_crash = true;
        if (op.fault_call >= 0)
            has_fault = true;
    }
    if (!plan.enumerate) {
        if (has_fault) {
            Result fr = run_single(plan, false, true, false, nullptr);
            if (fr.ok) {
                // the differential rule of the enumeration: nothing may vanish in the failed operation that
                // stays when nothing fails
                FPlan q0 = plan;
                int fop = -1;
                for (size_t i = 0; i < q0.ops.size(); i++)
                    if (q0.ops[i].fault_call >= 0) {
                        fop = (int)i;
                        q0.ops[i].fault_call = -1;
                    }
                Result free = run_single(q0, false, false, false, nullptr);
                if (fop >= 0 && free.ok)
                    for (auto &name : fr.vanished[fop])
                        if (!free.vanished[fop].count(name)) {
                            fr.ok = false;
                            fr.msg = "op " + std::to_string(fop) + ": rotated file " + name
                                    + " was deleted, which the same operation does not do when nothing fails"
                                      " (the failure made the sink delete a file the retention policy still covers)";
                            break;
                        }
            }
            if (!fr.ok && !fr.machinery) {
                for (size_t i = 0; i < plan.ops.size(); i++)
                    if (plan.ops[i].fault_call >= 0) {
                        const FOp &o = plan.ops[i];
                        fr.msg = std::string("with ") + sim::fs_call_name(o.fault_call) + " #" + std::to_string(o.fault_nth)
                                + " of operation " + std::to_string(i) + " failing with errno " + std::to_string(o.fault_errno & 0xffff)
                                + " (" + strerror(o.fault_errno & 0xffff) + "): " + fr.msg;
                        break;
                    }
                fr.cls = "io-failure-loses-records";
                fr.signature = "io-failure-loses-records";
            }
            return fr;
        }
        return run_single(plan, has_crash, false, false, nullptr);
    }
    // enumeration: all crash points of the fault-free execution ...
    std::vector<std::array<int, 3>> sites;
    Result r = run_single(plan, true, false, true, &sites);
    if (!r.ok)
        return r;
    // ... then every single failure
    long fault_runs = 0;
    for (auto &s : sites) {
        for (int err : errno_menu(s[1])) {
            FPlan q = plan;
            q.enumerate = false;
            q.ops[s[0]].fault_call = s[1];
            q.ops[s[0]].fault_nth = s[2];
            q.ops[s[0]].fault_errno = err;
            Result fr = run_single(q, false, true, false, nullptr);
            fault_runs++;
            if (fr.ok) {
                // a failure must not make the sink delete rotated files that it keeps when nothing fails:
                // compare what vanished in the operation that had the failure with the fault-free run
                const std::set<std::string> &free = r.vanished[s[0]];
                for (auto &name : fr.vanished[s[0]])
                    if (!free.count(name)) {
                        fr.ok = false;
                        fr.cls = "io-failure-loses-records";
                        fr.msg = "op " + std::to_string(s[0]) + ": rotated file " + name
                                + " was deleted, which the same operation does not do when nothing fails"
                                  " (the failure made the sink delete a file the retention policy still covers)";
                        break;
                    }
            }
            if (s[1] == sim::FS_WRITE && fr.probes.count("fault_fired") && fr.probes["fault_fired"] > 0)
                r.probes["compressed_file_write_failed"] += 1;
            for (auto &kv : fr.probes)
                if (kv.first == "fault_fired" || kv.first == "rename_fell_back_to_link"
                    || kv.first == "records_refused_device_closed" || kv.first == "errno_injected")
                    r.probes[kv.first] += kv.second;
            if (!fr.ok) {
                fr.at_op = s[0];
                fr.fault_call = s[1];
                fr.fault_nth = s[2];
                fr.fault_errno = err;
                fr.msg = std::string("with ") + sim::fs_call_name(s[1]) + " #" + std::to_string(s[2])
                        + " of operation " + std::to_string(s[0]) + " failing with errno " + std::to_string(err & 0xffff) + " ("
                        + strerror(err & 0xffff) + ((err & sim::FS_ERR_STICKY) ? ", and every fall-back that would create the destination" : "")
                        + "): " + fr.msg;
                fr.cls = "io-failure-loses-records";
                fr.signature = "io-failure-loses-records";
                fr.crash_points = r.crash_points;
                fr.fault_runs = fault_runs;
                fr.probes = r.probes;
                return fr;
            }
        }
    }
    r.fault_runs = fault_runs;
    r.probes["fault_sites"] = (int)sites.size();
    return r;
}

} // namespace fsim
