#include "fplan.h"
#include <cerrno>

#include <QJsonDocument>

namespace fsim {

const char *const kForeignMenu[] = { "bak", "noindex", "xprefix", "stem2", "suffixx", "gztmp", "upper", "meta", "xindex" };

static QJsonObject op_json(const FOp &o)
{
    QJsonObject j;
    j["k"] = QString::fromStdString(o.k);
    if (o.k == "write" || o.k == "swrite") {
        j["n"] = o.n;
        if (o.cls)
            j["cls"] = o.cls;
        if (o.cat)
            j["cat"] = o.cat;
        if (o.fmt)
            j["fmt"] = o.fmt;
    } else if (o.k == "advance") {
        if (o.ms)
            j["ms"] = (qint64)o.ms;
        if (o.days)
            j["days"] = o.days;
        if (o.wj)
            j["wj"] = o.wj;
        if (o.to)
            j["to"] = o.to;
    }
    if (o.rmobst)
        j["rmobst"] = o.rmobst;
    if (o.crash_b >= 0) {
        j["crash_b"] = o.crash_b;
        if (o.crash_torn)
            j["crash_torn"] = o.crash_torn;
    }
    if (o.fault_call >= 0) {
        j["fault_call"] = o.fault_call;
        j["fault_nth"] = o.fault_nth;
        j["fault_errno"] = o.fault_errno;
    }
    return j;
}

static FOp op_from(const QJsonObject &j)
{
    FOp o;
    o.k = j["k"].toString().toStdString();
    o.n = j["n"].toInt();
    o.cls = j["cls"].toInt();
    o.cat = j["cat"].toInt();
    o.fmt = j["fmt"].toInt();
    o.ms = (int64_t)j["ms"].toDouble();
    o.days = j["days"].toInt();
    o.wj = j["wj"].toInt();
    o.rmobst = j["rmobst"].toInt();
    o.to = j["to"].toInt();
    o.crash_b = j.contains("crash_b") ? j["crash_b"].toInt() : -1;
    o.crash_torn = j["crash_torn"].toInt();
    o.fault_call = j.contains("fault_call") ? j["fault_call"].toInt() : -1;
    o.fault_nth = j["fault_nth"].toInt();
    o.fault_errno = j["fault_errno"].toInt();
    return o;
}

QJsonObject to_json(const FPlan &p)
{
    QJsonObject o;
    o["engine"] = "fsim";
    o["prop"] = QString::fromStdString(p.prop);
    o["tier"] = QString::fromStdString(p.tier);
    o["seed"] = QString::number(p.seed);
    o["base"] = QString::fromStdString(p.base);
    o["L"] = p.L;
    o["N"] = p.N;
    o["options"] = p.options;
    o["via_pipeline"] = p.via_pipeline;
    o["gran_ms"] = p.gran_ms;
    o["short_write_pct"] = p.short_write_pct;
    o["eintr_pct"] = p.eintr_pct;
    o["fault_seed"] = QString::number(p.fault_seed);
    QJsonArray f;
    for (int x : p.foreign)
        f.append(x);
    o["foreign"] = f;
    if (!p.sibling.empty())
        o["sibling"] = QString::fromStdString(p.sibling);
    if (p.obstacle)
        o["obstacle"] = p.obstacle;
    if (p.obstacle_gz)
        o["obstacle_gz"] = true;
    if (p.decoy)
        o["decoy"] = true;
    if (p.tz_min)
        o["tz_min"] = p.tz_min;
    if (p.pre_bytes) {
        o["pre_bytes"] = p.pre_bytes;
        o["pre_age_days"] = p.pre_age_days;
    }
    o["start_ms_of_day"] = p.start_ms_of_day;
    QJsonArray ops;
    for (auto &op : p.ops)
        ops.append(op_json(op));
    o["ops"] = ops;
    o["enumerate"] = p.enumerate;
    o["restart_writes"] = p.restart_writes;
    if (!p.expect_class.empty())
        o["expect_class"] = QString::fromStdString(p.expect_class);
    return o;
}

bool from_json(const QJsonObject &o, FPlan &p)
{
    if (o["engine"].toString() != "fsim")
        return false;
    p = FPlan();
    p.prop = o["prop"].toString().toStdString();
    p.tier = o["tier"].toString().toStdString();
    p.seed = o["seed"].toString().toULongLong();
    p.base = o["base"].toString().toStdString();
    p.L = o["L"].toInt();
    p.N = o["N"].toInt();
    p.options = o["options"].toInt();
    p.via_pipeline = o["via_pipeline"].toBool();
    p.gran_ms = o["gran_ms"].toInt(1);
    p.short_write_pct = o["short_write_pct"].toInt();
    p.eintr_pct = o["eintr_pct"].toInt();
    p.fault_seed = o["fault_seed"].toString().toULongLong();
    for (auto v : o["foreign"].toArray())
        p.foreign.push_back(v.toInt());
    p.sibling = o["sibling"].toString().toStdString();
    p.obstacle = o["obstacle"].toInt();
    p.obstacle_gz = o["obstacle_gz"].toBool();
    p.decoy = o["decoy"].toBool();
    p.tz_min = o["tz_min"].toInt();
    p.pre_bytes = o["pre_bytes"].toInt();
    p.pre_age_days = o["pre_age_days"].toInt();
    p.start_ms_of_day = o["start_ms_of_day"].toInt(12 * 3600 * 1000);
    for (auto v : o["ops"].toArray())
        p.ops.push_back(op_from(v.toObject()));
    p.enumerate = o["enumerate"].toBool();
    p.restart_writes = o["restart_writes"].toInt(3);
    p.expect_class = o["expect_class"].toString().toStdString();
    return true;
}

// ---------------------------------------------------------------- generator ----
using sim::Rng;

namespace {

FOp wr(int n, int cls = 0)
{
    FOp o;
    o.k = "write";
    o.n = n;
    o.cls = cls;
    return o;
}
FOp adv_ms(int64_t ms)
{
    FOp o;
    o.k = "advance";
    o.ms = ms;
    return o;
}
FOp adv_days(int days, int to_edge, int64_t ms)
{
    FOp o;
    o.k = "advance";
    o.days = days;
    o.to = to_edge;
    o.ms = ms;
    return o;
}
FOp simple(const char *k)
{
    FOp o;
    o.k = k;
    return o;
}

template<typename T, size_t N>
T pick(Rng &r, const T (&a)[N])
{
    return a[r.below(N)];
}

int size_near(Rng &r, int L)
{
    // record sizes around the limit: total bytes incl. newline land on L-2 .. L+2
    int d = (int)r.range(-3, 2);
    int n = L + d;
    return n < 0 ? 0 : n;
}

int gen_size(Rng &r, int L, bool big_ok)
{
    int c = (int)r.below(100);
    if (c < 8)
        return 0;
    if (c < 16)
        return 1;
    if (L > 0 && c < 45)
        return size_near(r, L);
    if (L > 0 && c < 55)
        return (int)r.range(1, L > 2 ? L / 2 + 1 : 2);
    if (L > 0 && c < 62)
        return L + (int)r.range(1, 50); // over the limit
    if (L > 0 && c < 65 && big_ok)
        return L * 3 + (int)r.range(0, 100); // far over the limit
    if (c < 70 && big_ok)
        return (int)r.range(16380, 16390); // around the stream buffer size
    if (c < 72 && big_ok)
        return (int)r.range(16384 * 2 - 4, 16384 * 2 + 4);
    return (int)r.range(2, 60);
}

void gen_advance(Rng &r, std::vector<FOp> &ops, bool daily_bias)
{
    int c = (int)r.below(100);
    if (daily_bias ? c < 50 : c < 15) {
        int k = (int)r.below(5);
        if (k == 0)
            ops.push_back(adv_days(0, 1, 0)); // to 23:59:59.999
        else if (k == 1)
            ops.push_back(adv_days(0, 1, 1)); // just past midnight
        else if (k == 2)
            ops.push_back(adv_days(1, 0, 0));
        else if (k == 3)
            ops.push_back(adv_days((int)r.range(2, 9), 0, (int64_t)r.range(0, 3600 * 1000)));
        else
            ops.push_back(adv_days(0, 1, (int64_t)r.range(1, 7200 * 1000)));
    } else {
        static const int64_t steps[] = { 1, 1, 3, 9, 10, 11, 500, 999, 1000, 1001, 2000, 2500, 60000, 3600000 };
        ops.push_back(adv_ms(steps[r.below(sizeof steps / sizeof *steps)]));
    }
}

} // namespace

// C07W: slice of the C07 check - the device fills up in the middle of a record. Large records (written
// straight through QFile's buffer), a size limit a few records wide, no retention, no compression; in one
// operation the write of the record transfers half of its bytes and the continuation fails once (ENOSPC/EIO/
// EDQUOT). Judged on sizes only (engine.cpp, run_size_only).
static FPlan gen_c07w(const std::string &tier, uint64_t seed)
{
    FPlan p;
    p.prop = "C07W";
    p.tier = tier;
    p.seed = seed;
    Rng r(sim::mix(seed, 0xc07c07c07ull));
    static const char *bases[] = { "app.log", "app", "my.app.log" };
    p.base = pick(r, bases);
    p.L = (int)r.range(40000, tier == "thorough" ? 300000 : 120000);
    p.N = r.chance(1, 3) ? 0 : -1;
    p.options = 0;
    p.via_pipeline = r.chance(1, 2);
    p.fault_seed = r.next() | 1;
    int nops = (int)r.range(4, 12);
    for (int i = 0; i < nops; i++) {
        if (i > 1 && r.chance(1, 10)) {
            FOp o;
            o.k = "restart";
            p.ops.push_back(o);
            continue;
        }
        FOp o;
        o.k = "write";
        o.n = (int)r.range(16400, p.L / 2);
        o.cls = r.chance(1, 2) ? 0 : 3;
        p.ops.push_back(o);
    }
    // the failure sits in one of the later writes
    std::vector<int> w;
    for (size_t i = 1; i < p.ops.size(); i++)
        if (p.ops[i].k == "write")
            w.push_back((int)i);
    if (!w.empty()) {
        static const int errs[] = { ENOSPC, EIO, EDQUOT };
        FOp &o = p.ops[w[r.below(w.size())]];
        o.fault_call = sim::FS_WRITE;
        o.fault_nth = 0;
        o.fault_errno = pick(r, errs) | sim::FS_ERR_SHORT_FIRST;
    }
    return p;
}

FPlan generate(const std::string &prop, const std::string &tier, uint64_t seed)
{
    if (prop == "C07W")
        return gen_c07w(tier, seed);
    FPlan p;
    p.prop = prop;
    p.tier = tier;
    p.seed = seed;
    Rng r(sim::mix(seed, sim::fnv1a(prop.data(), prop.size())));
    bool thorough = tier == "thorough";

    static const char *bases[] = { "app.log", "app.log", "app", "a+b.log", "my.app.log", "d/app.log", ".app.log",
                                   "my app.log", "app(1).log", "app[x].log", "\xd0\xb6\xd1\x83\xd1\x80\xd0\xbd\xd0\xb0\xd0\xbb.log", "APP.LOG",
                                   "app.log.1", "app..log" };
    p.base = pick(r, bases);
    {
        // base names that contain QString::arg() place markers (added later, drawn from a stream of their own so
        // that every other choice of every existing plan stays what it was)
        Rng r2(sim::mix(seed, 0xba5eba5eull));
        static const char *pct[] = { "app%3.log", "app%1.log", "100%.log", "%2%3", "a%4b.log.%3" };
        if (r2.chance(1, 10))
            p.base = pick(r2, pct);
    }
    static const int Ls[] = { 0, 1, 2, 5, 16, 64, 64, 100, 100, 1000, 16383, 16384, 16385, 70000 };
    static const int Ns[] = { -1, 0, 0, 1, 2, 2, 3, 3, 4, 11, 12 };
    p.L = pick(r, Ls);
    p.N = pick(r, Ns);
    p.options = (int)r.below(8);
    p.via_pipeline = r.chance(1, 5);
    static const int grans[] = { 1, 1, 1, 10, 1000, 2000 };
    p.gran_ms = pick(r, grans);
    if (r.chance(1, 4)) {
        p.short_write_pct = (int)r.range(5, 40);
        p.eintr_pct = (int)r.range(0, 20);
    }
    p.fault_seed = r.next();
    p.start_ms_of_day = r.chance(1, 3) ? (int)r.range(0, 86399999) : 12 * 3600 * 1000;
    int nops = r.chance(1, 8) ? (int)r.range(13, 60) : (int)r.range(1, 12);
    bool daily = p.options & 2;

    if (prop == "C06") {
        static const int N6[] = { 2, 2, 3, 3, 4, 11, 12, -1, 0, 1 };
        p.N = pick(r, N6);
        static const int L6[] = { 1, 5, 8, 16, 64, 100 };
        p.L = pick(r, L6);
        static const int g6[] = { 1, 10, 1000, 1000, 2000 };
        p.gran_ms = pick(r, g6);
        int nf = (int)r.below(4);
        for (int i = 0; i < nf; i++)
            p.foreign.push_back((int)r.below(kNumForeign));
        if (r.chance(1, 5))
            nops = (int)r.range(20, thorough ? 260 : 130); // index crossings 9->10 (and 99->100)
    } else if (prop == "C07") {
        static const int L7[] = { 1, 2, 5, 16, 64, 100, 1000, 16383, 16384, 16385 };
        p.L = pick(r, L7);
        static const int N7[] = { -1, 0, 0, 2, 3, 4, 12 };
        p.N = pick(r, N7);
    } else if (prop == "C08") {
        p.options |= 4;
        static const int N8[] = { -1, 0, 0, 2, 3, 5 };
        p.N = pick(r, N8);
        static const int L8[] = { 0, 64, 1000, 8192, 16384, 65536, 200000 };
        p.L = pick(r, L8);
        if (p.L == 0)
            p.options |= 1 + (int)r.below(3);
        nops = (int)r.range(2, 14);
        p.enumerate = true; // plus every single failure to create a file
    } else if (prop == "C09") {
        p.options |= 2;
        daily = true;
        static const int N9[] = { -1, 0, 0, 2, 3, 4, 12 };
        p.N = pick(r, N9);
    } else if (prop == "C10") {
        static const int N10[] = { -1, 0, 0, 2, 2, 3, 4 };
        p.N = pick(r, N10);
        static const int L10[] = { 0, 5, 16, 64, 100, 1000 };
        p.L = pick(r, L10);
        if (p.L == 0)
            p.options |= 1 + (int)r.below(3);
        nops = (int)r.range(3, thorough ? 25 : 12);
        p.enumerate = true;
        p.restart_writes = (int)r.range(1, 5);
        p.short_write_pct = 0;
        p.eintr_pct = 0;
        p.gran_ms = r.chance(1, 3) ? 1000 : 1;
    }

    if ((prop == "C05" || prop == "C10" || prop == "C06") && r.chance(1, 8))
        p.obstacle = (int)r.range(1, 3);
    if (p.obstacle && (p.options & 4) && r.chance(1, 2))
        p.obstacle_gz = true;
    if ((prop == "C05" || prop == "C07") && r.chance(1, 6))
        p.decoy = true;
    {
        static const int tzs[] = { 0, 0, 0, 540, -300, 345, -720, 840 };
        p.tz_min = pick(r, tzs);
    }
    if (r.chance(1, prop == "C08" ? 3 : 6)) {
        static const int pb[] = { 1, 17, 300, 5000, 65535, 65536, 70001, 200000 };
        p.pre_bytes = pick(r, pb);
        if (prop == "C08" && thorough && r.chance(1, 10))
            p.pre_bytes = 3 << 20;
        if (prop == "C10" && p.pre_bytes > 70001)
            p.pre_bytes = 70001;
        p.pre_age_days = r.chance(1, 2) ? 0 : (int)r.range(1, 3);
    }
    bool big10 = prop == "C10" && (p.options & 4) && r.chance(1, 4);
    for (int i = 0; i < nops; i++) {
        int c = (int)r.below(100);
        if (c < 62) {
            int cls = r.chance(1, 5) ? 1 : (r.chance(1, 8) ? 2 : (r.chance(1, 8) ? 3 : (r.chance(1, 7) ? 4 : 0)));
            int n = gen_size(r, p.L, true);
            if (prop == "C08") {
                static const int big[] = { 1, 100, 8191, 8192, 8193, 20000, 65535, 65536, 65537, 150000 };
                if (r.chance(1, 2))
                    n = pick(r, big);
                if (thorough && r.chance(1, 40))
                    n = (int)r.range(1 << 20, 4 << 20);
                cls = (int)r.below(5);
            }
            if (prop == "C10" && n > 3000)
                n = (int)r.range(0, 200);
            if (big10 && r.chance(1, 3)) {
                // poorly compressible records whose compressed form exceeds the 16 KiB stream buffer
                n = (int)r.range(24000, 60000);
                cls = 3;
            }
            FOp w = wr(n, cls);
            if (r.chance(1, 5))
                w.cat = 1;
            if (r.chance(1, 6))
                w.fmt = 1;
            p.ops.push_back(w);
        } else if (c < 80) {
            gen_advance(r, p.ops, daily || prop == "C09");
        } else if (c < 92) {
            p.ops.push_back(simple("restart"));
        } else {
            p.ops.push_back(simple("checkpoint"));
        }
    }
    if (prop == "C06" && nops >= 20) {
        // index-crossing slice: back-to-back small writes, a few clock steps, same day
        p.ops.clear();
        for (int i = 0; i < nops; i++) {
            p.ops.push_back(wr((int)r.range(p.L > 2 ? p.L - 2 : 1, p.L + 1), 0));
            if (r.chance(1, 6))
                {
                static const int64_t st[] = { 1, 10, 999, 1000, 2000 };
                p.ops.push_back(adv_ms(pick(r, st)));
            }
            if (r.chance(1, 40))
                p.ops.push_back(simple("restart"));
        }
    }
    if (prop == "C06" && r.chance(1, 3)) {
        // a second rotating sink with a look-alike base name shares the directory
        std::string b = p.base;
        size_t sl = b.find('/');
        std::string dir = sl == std::string::npos ? "" : b.substr(0, sl + 1);
        std::string name = sl == std::string::npos ? b : b.substr(sl + 1);
        size_t dot = name.rfind('.');
        std::string stem = (dot == std::string::npos || dot == 0) ? name : name.substr(0, dot);
        std::string suf = (dot == std::string::npos || dot == 0) ? "" : name.substr(dot);
        static const int kinds[] = { 0, 1, 2, 3, 4 };
        switch (pick(r, kinds)) {
        case 0:
            p.sibling = dir + stem + "2" + suf; // app2.log
            break;
        case 1:
            p.sibling = dir + "x" + stem + suf; // xapp.log
            break;
        case 2:
            p.sibling = dir + stem + (suf.empty() ? ".log" : ""); // app <-> app.log
            break;
        case 3:
            p.sibling = dir + stem + suf + (suf.empty() ? ".1" : "x"); // app.logx
            break;
        default:
            p.sibling = dir + "my." + stem + suf; // my.app.log
        }
        std::vector<FOp> mixed;
        for (auto &op : p.ops) {
            mixed.push_back(op);
            if (r.chance(1, 2)) {
                FOp sw = wr((int)r.range(1, p.L > 0 ? p.L + 2 : 20), 0);
                sw.k = "swrite";
                mixed.push_back(sw);
            }
        }
        p.ops = mixed;
    }
    {
        // wall-clock steps (the clock is set, or the machine slept over midnight): in a quarter of the plans each day
        // change is, with probability 1/2, a step of the wall clock only. Own stream: other choices stay as they were.
        Rng r4(sim::mix(seed, 0x0b57ac1eull));
        if (p.obstacle > 0)
            for (auto &op : p.ops)
                if (op.k == "restart" && r4.chance(1, 2))
                    op.rmobst = 1;
        // C08: a rotated file beyond 4 MiB now and then (pre-existing content; quick tier too)
        if (prop == "C08" && r4.chance(1, 300)) {
            p.pre_bytes = (4 << 20) + (int)r4.range(1, 2 << 20);
            if (p.pre_age_days == 0 && r4.chance(1, 2))
                p.pre_age_days = 1;
        }
        Rng r3(sim::mix(seed, 0x57e9c10cull));
        if (r3.chance(1, 4))
            for (auto &op : p.ops)
                if (op.k == "advance" && op.days > 0 && r3.chance(1, 2))
                    op.wj = 1;
    }
    return p;
}

} // namespace fsim
