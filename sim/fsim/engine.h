#pragma once
#include <map>
#include <set>
#include <string>

#include "fplan.h"

namespace fsim {

struct Result
{
    bool ok = true;
    bool machinery = false;
    std::string cls, msg, signature;
    std::map<std::string, int> probes;
    uint64_t proj = 0; // projected history hash (0 = trivial: no rotation)
    uint64_t hash = 0; // full trace hash (determinism)
    double sim_days = 0;
    long crash_points = 0, fault_runs = 0;
    // C10: where the failing crash / failure sits (for the derived single-fault plan)
    int at_op = -1, crash_b = -1, crash_torn = 0, fault_call = -1, fault_nth = 0, fault_errno = 0;
    // rotated files that were there before operation i and are gone after it (plain names), per operation
    std::map<int, std::set<std::string>> vanished;
};

Result run_history(const FPlan &plan);

} // namespace fsim
