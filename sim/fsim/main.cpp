// fsim - single-threaded clock / file-system / crash simulator driver.
//
//   fsim batch <prop> <tier> <base_seed> <first> <stride> <count> <outdir>
//   fsim serve                      (plan JSON lines on stdin -> result JSON lines)
//   fsim gen <prop> <tier> <seed>
//
// In-process: many histories per process; each history runs on a private
// directory under /dev/shm that is created and removed by the engine.
#include <cstdio>
#include <cstdlib>
#include <cstring>
#include <fcntl.h>
#include <iostream>
#include <set>
#include <sys/syscall.h>
#include <unistd.h>

#include <QJsonArray>
#include <QJsonDocument>
#include <QJsonObject>

#include "engine.h"
#include "fplan.h"
#include "sim.h"

using namespace fsim;

static std::string g_flavour =
#ifdef __SANITIZE_ADDRESS__
        "asan";
#else
        "plain";
#endif

static double real_now()
{
    struct timespec ts;
    syscall(SYS_clock_gettime, CLOCK_MONOTONIC, &ts);
    return ts.tv_sec + ts.tv_nsec * 1e-9;
}

static FPlan derived_plan(const FPlan &p, const Result &r)
{
    FPlan q = p;
    if ((p.prop == "C10" || p.prop == "C08") && p.enumerate && r.at_op >= 0 && r.at_op < (int)q.ops.size()) {
        q.enumerate = false;
        if (r.fault_call >= 0) {
            q.ops[r.at_op].fault_call = r.fault_call;
            q.ops[r.at_op].fault_nth = r.fault_nth;
            q.ops[r.at_op].fault_errno = r.fault_errno;
        } else {
            q.ops[r.at_op].crash_b = r.crash_b;
            q.ops[r.at_op].crash_torn = r.crash_torn;
        }
    }
    return q;
}

static QJsonObject result_json(const Result &r)
{
    QJsonObject o;
    o["ok"] = r.ok;
    o["machinery"] = r.machinery;
    o["class"] = QString::fromStdString(r.cls);
    o["msg"] = QString::fromStdString(r.msg);
    o["signature"] = QString::fromStdString(r.signature);
    o["hash"] = QString::number(r.hash, 16);
    QJsonObject pr;
    for (auto &kv : r.probes)
        pr[QString::fromStdString(kv.first)] = kv.second;
    o["probes"] = pr;
    return o;
}

static void cleanup_top()
{
    std::string top = "/dev/shm/qtlv." + std::to_string((int)getpid());
    std::string h = top + "/h";
    rmdir(h.c_str());
    rmdir(top.c_str());
}

static int cmd_batch(int argc, char **argv)
{
    if (argc < 9)
        return 2;
    std::string prop = argv[2], tier = argv[3];
    uint64_t base = strtoull(argv[4], nullptr, 10);
    long first = atol(argv[5]), stride = atol(argv[6]), count = atol(argv[7]);
    std::string outdir = argv[8];
    double budget_s = getenv("TSIM_BUDGET_S") ? atof(getenv("TSIM_BUDGET_S")) : 1e9;
    std::string outpath = outdir + "/w" + std::to_string(first) + ".jsonl";
    FILE *out = fopen(outpath.c_str(), "w");
    if (!out)
        return 2;
    std::set<uint64_t> projs;
    std::map<std::string, long> probe_sum, probe_runs, classes;
    long runs = 0, violations = 0, nondet = 0, crash_points = 0, fault_runs = 0;
    double sim_days = 0;
    QJsonArray samples;
    double start = real_now();
    uint64_t ph = sim::fnv1a(prop.data(), prop.size());
    std::string curpath = outdir + "/w" + std::to_string(first) + ".cur";
    int curfd = ::open(curpath.c_str(), O_WRONLY | O_CREAT | O_TRUNC, 0644);
    for (long k = 0; k < count; k++) {
        long index = first + k * stride;
        uint64_t seed = sim::mix(sim::mix(base, ph), (uint64_t)index);
        FPlan plan = generate(prop, tier, seed);
        if (curfd >= 0) {
            // progress marker: if this process dies inside the history, the driver knows which one
            char buf[64];
            int n = snprintf(buf, sizeof buf, "%ld %ld          \n", k, index);
            if (pwrite(curfd, buf, (size_t)n, 0) < 0) { }
        }
        Result r = run_history(plan);
        runs++;
        if (k < 4) {
            Result r2 = run_history(plan);
            if (r2.hash != r.hash || r2.ok != r.ok || r2.cls != r.cls) {
                nondet++;
                QJsonObject o;
                o["kind"] = "nondeterminism";
                o["both_ok"] = r.ok && r2.ok;
                o["index"] = (qint64)index;
                o["hash1"] = QString::number(r.hash, 16);
                o["hash2"] = QString::number(r2.hash, 16);
                o["plan"] = to_json(plan);
                fprintf(out, "%s\n", QJsonDocument(o).toJson(QJsonDocument::Compact).constData());
            }
        }
        if (r.proj)
            projs.insert(r.proj);
        sim_days += r.sim_days;
        crash_points += r.crash_points;
        fault_runs += r.fault_runs;
        for (auto &kv : r.probes) {
            probe_sum[kv.first] += kv.second;
            if (kv.second)
                probe_runs[kv.first]++;
        }
        if (!r.ok) {
            violations++;
            classes[r.signature.empty() ? r.cls : r.signature]++;
            QJsonObject o = result_json(r);
            o["kind"] = "violation";
            o["index"] = (qint64)index;
            o["seed"] = QString::number(seed);
            o["plan"] = to_json(derived_plan(plan, r));
            fprintf(out, "%s\n", QJsonDocument(o).toJson(QJsonDocument::Compact).constData());
            fflush(out);
        }
        if (first == 0 && k < 2)
            samples.append(to_json(plan));
        if (violations >= 6)
            break; // a broken tree: enough material for the report, no need to finish the batch
        if (real_now() - start > budget_s)
            break;
    }
    if (curfd >= 0)
        ::close(curfd);
    QJsonObject st;
    st["kind"] = "stats";
    st["prop"] = QString::fromStdString(prop);
    st["flavour"] = QString::fromStdString(g_flavour);
    st["runs"] = (qint64)runs;
    st["violations"] = (qint64)violations;
    st["machinery"] = 0;
    st["nondeterminism"] = (qint64)nondet;
    st["wall_s"] = real_now() - start;
    st["sim_days"] = sim_days;
    st["crash_points"] = (qint64)crash_points;
    st["fault_runs"] = (qint64)fault_runs;
    QJsonObject pj, prj, clj;
    for (auto &kv : probe_sum)
        pj[QString::fromStdString(kv.first)] = (qint64)kv.second;
    for (auto &kv : probe_runs)
        prj[QString::fromStdString(kv.first)] = (qint64)kv.second;
    for (auto &kv : classes)
        clj[QString::fromStdString(kv.first)] = (qint64)kv.second;
    st["probes"] = pj;
    st["probe_runs"] = prj;
    st["classes"] = clj;
    st["samples"] = samples;
    fprintf(out, "%s\n", QJsonDocument(st).toJson(QJsonDocument::Compact).constData());
    fclose(out);
    std::string hp = outdir + "/w" + std::to_string(first) + ".hashes";
    FILE *hf = fopen(hp.c_str(), "wb");
    if (hf) {
        for (uint64_t h : projs)
            fwrite(&h, sizeof h, 1, hf);
        fclose(hf);
    }
    return 0;
}

static int cmd_serve()
{
    std::string line;
    while (std::getline(std::cin, line)) {
        if (line.empty())
            continue;
        QJsonDocument d = QJsonDocument::fromJson(QByteArray::fromStdString(line));
        FPlan plan;
        if (d.isNull() || !from_json(d.object(), plan)) {
            printf("{\"ok\":false,\"machinery\":true,\"class\":\"bad-plan\",\"msg\":\"cannot parse plan\"}\n");
            fflush(stdout);
            continue;
        }
        Result r = run_history(plan);
        printf("%s\n", QJsonDocument(result_json(r)).toJson(QJsonDocument::Compact).constData());
        fflush(stdout);
    }
    return 0;
}

int main(int argc, char **argv)
{
#ifndef __SANITIZE_ADDRESS__
    // glibc fills freed (and fresh) memory with a byte pattern: a use after free inside an
    // uninstrumented library (Qt) then misbehaves the same way in every process, instead of
    // depending on what the heap happens to hold
    if (!getenv("MALLOC_PERTURB_")) {
        setenv("MALLOC_PERTURB_", "165", 1);
        execv("/proc/self/exe", argv);
    }
#endif
    sim::init_env();
    if (argc < 2)
        return 2;
    std::string cmd = argv[1];
    if (cmd == "plan") {
        // fsim plan <prop> <tier> <base_seed> <index>: the plan a batch would run at that index
        if (argc < 6)
            return 2;
        std::string prop = argv[2];
        uint64_t ph = sim::fnv1a(prop.data(), prop.size());
        uint64_t seed = sim::mix(sim::mix(strtoull(argv[4], nullptr, 10), ph), strtoull(argv[5], nullptr, 10));
        FPlan p = generate(prop, argv[3], seed);
        printf("%s\n", QJsonDocument(to_json(p)).toJson(QJsonDocument::Compact).constData());
        return 0;
    }
    if (cmd == "gen") {
        if (argc < 5)
            return 2;
        FPlan p = generate(argv[2], argv[3], strtoull(argv[4], nullptr, 10));
        printf("%s\n", QJsonDocument(to_json(p)).toJson(QJsonDocument::Compact).constData());
        return 0;
    }
    sim::shm_attach(sim::shm_create());
    // quiet: the sinks report failed renames etc. on stderr (expected under injected faults)
    if (!getenv("FSIM_KEEP_STDERR"))
        if (!freopen("/dev/null", "w", stderr)) { }
    int rc = 2;
    if (cmd == "batch")
        rc = cmd_batch(argc, argv);
    else if (cmd == "serve")
        rc = cmd_serve();
    cleanup_top();
    return rc;
}

extern "C" __attribute__((used)) const char *__asan_default_options()
{
    return "exitcode=77:detect_leaks=0:handle_abort=0:allocator_may_return_null=1";
}
extern "C" __attribute__((used)) const char *__ubsan_default_options()
{
    return "halt_on_error=1:exitcode=77:print_stacktrace=1";
}
