int main() { return 0; }
