#!/bin/bash
# tools/verify_seed.sh <worktree> <n>: confirm a seeded change: with the patch the baseline suite
# passes and the demo fails; without it the demo passes.  Leaves the worktree clean.
WT=$1; N=$2; S=$WT/_seeded/$N
cd $WT || exit 2
git checkout -q -- . ; 
git apply --whitespace=nowarn $S/patch.diff || { echo "RESULT $WT/$N patch-does-not-apply"; exit 1; }
[ -d _build ] || cmake -G Ninja -S $WT -B $WT/_build >/dev/null
cmake --build _build -j16 -- -k 0 >/tmp/vs-build.$$ 2>&1
T=$(ctest --test-dir _build -j8 --timeout 900 2>&1 | grep -E "tests passed|tests failed" | tail -1)
DEMO=$(ls $S/demo/run_demo.sh 2>/dev/null)
timeout 900 bash $DEMO $WT >/tmp/vs-demo1.$$ 2>&1; D1=$?
git checkout -q -- .
cmake --build _build -j16 -- -k 0 >/tmp/vs-build2.$$ 2>&1
timeout 900 bash $DEMO $WT >/tmp/vs-demo2.$$ 2>&1; D2=$?
T2=$(ctest --test-dir _build -j8 --timeout 900 2>&1 | grep -E "tests passed|tests failed" | tail -1)
echo "RESULT $WT/$N with-patch: suite[$T] demo-exit=$D1 | without: demo-exit=$D2 suite[$T2]"
tail -3 /tmp/vs-demo1.$$ | sed 's/^/   demo(with patch): /'
rm -f /tmp/vs-*.$$
