#!/usr/bin/env python3
"""Apply a patch to /repo, run the quick checks of the given properties, undo the patch.

  tools/trypatch.py <patch.diff> <ID> [<ID> ...]     (env VERIF_FLAVOURS=plain to skip the asan slice)

Prints one line per property: DETECTED (exit 1 + VIOLATION line) / MISSED (exit 0) / ERROR (exit 2).
The patch is always reverted (git -C /repo checkout -- .), also on interruption.
"""
import os, subprocess, sys, time
REPO = os.environ.get("VERIF_REPO", "/repo")
VERIF = os.path.dirname(os.path.dirname(os.path.abspath(__file__)))

def main():
    patch = os.path.abspath(sys.argv[1]); props = sys.argv[2:]
    st = subprocess.run(["git", "-C", REPO, "status", "--porcelain", "--untracked-files=no"], capture_output=True, text=True).stdout.strip()
    if st:
        print("refusing: /repo has local modifications:\n" + st); return 2
    r = subprocess.run(["git", "-C", REPO, "apply", "--whitespace=nowarn", patch], capture_output=True, text=True)
    if r.returncode != 0:
        for p in props:
            print("%s ERROR (patch does not apply to %s)" % (p, REPO))
        print("patch does not apply:", r.stderr[:500]); return 2
    rc_all = 0
    try:
        for p in props:
            t0 = time.time()
            env = dict(os.environ)
            env.setdefault("VERIF_REPLAY_DIR", "/tmp/trypatch-replays")
            env.setdefault("VERIF_EVIDENCE_DIR", "/tmp/trypatch-evidence")
            r = subprocess.run([os.path.join(VERIF, "check"), p, "quick"], capture_output=True, text=True, cwd=VERIF, env=env)
            viol = [l for l in r.stdout.splitlines() if l.startswith("VIOLATION") or l.startswith("violation:")]
            word = {0: "MISSED", 1: "DETECTED", 2: "ERROR"}.get(r.returncode, "ERROR")
            print("%s %s (exit %d, %.0fs)" % (p, word, r.returncode, time.time() - t0))
            for l in viol[:6]:
                print("    " + l[:300])
            if r.returncode == 2:
                print("    " + "\n    ".join(r.stdout.splitlines()[-8:]))
            sys.stdout.flush()
    finally:
        subprocess.run(["git", "-C", REPO, "checkout", "--", "."])
    return rc_all

if __name__ == "__main__":
    sys.exit(main())
