#!/usr/bin/env python3
"""Re-validate the seeded changes: apply each seeded/<id>/patch.diff to the repository (VERIF_REPO or
/repo), run the quick check that is recorded as catching it, undo the patch.

  tools/sensitivity.py [id ...]          (env VERIF_FLAVOURS=plain for speed; seeds recorded as
                                          caught only by the asan slice get both flavours)
Exit 0 iff every change recorded as detected is detected again."""
import glob, json, os, subprocess, sys
VERIF = os.path.dirname(os.path.dirname(os.path.abspath(__file__)))
ids = sys.argv[1:] or sorted(os.path.basename(os.path.dirname(p)) for p in glob.glob(os.path.join(VERIF, "seeded", "*", "meta.json")))
bad = 0
for sid in ids:
    meta = json.load(open(os.path.join(VERIF, "seeded", sid, "meta.json")))
    det = meta.get("detected_by") or {}
    prop = det.get("property")
    if not prop:
        print("%-7s not detected by any check (recorded): %s" % (sid, meta.get("not_detected_reason", "")[:100]))
        continue
    env = dict(os.environ)
    if det.get("needs_asan"):
        env["VERIF_FLAVOURS"] = "plain,asan"
    r = subprocess.run([os.path.join(VERIF, "tools", "trypatch.py"), os.path.join(VERIF, "seeded", sid, "patch.diff"), prop],
                       capture_output=True, text=True, env=env)
    line = [l for l in r.stdout.splitlines() if l.startswith(prop)]
    word = line[0] if line else r.stdout.strip()[-200:]
    ok = "DETECTED" in word
    if not ok:
        bad += 1
    print("%-7s %s" % (sid, word))
    sys.stdout.flush()
sys.exit(1 if bad else 0)
