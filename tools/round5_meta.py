import json, os, re, sys
R = {
"C02-10": ("OwnThreadHandler remembers its logger thread's id for a lock-free fast path and never clears it in resetOwnThread()", "bare handler that was asynchronous once and was reset; a producer created afterwards inherits the recycled thread id and enters the pipeline without the mutex"),
"C02-11": ("the main thread pumps its event loop (processEvents) while waiting for the logger lock", "application object, caller is the main thread, another thread holds the logger > 20 ms, queued events whose handlers log: those messages are re-entrant and never reach a sink"),
"C03-10": ("process-wide table of source-location strings keyed by the caller's pointer; a hit is validated by a prefix comparison only", "the same buffer address used for two calls where the earlier string is a proper prefix of (or empty before) the later one"),
"C03-11": ("process() handles the message synchronously on the caller while no QCoreApplication exists", "asynchronous mode with a backlog, application object destroyed (or not yet created), a further message before the stop: overtakes the queue and runs in the logging call"),
"C04-10": ("resetOwnThread() returns early, without the mutex, when m_thread is already null", "two overlapping stops; the first has cleared m_thread and is still delivering the leftover backlog when the second arrives and returns at once"),
"C04-11": ("the logger's QThread object becomes a child of qApp", "application object destroyed with the logger thread still running (main returns without exec/quit/reset): ~QCoreApplication deletes a running QThread"),
"C05-10": ("retention lists rotated files with a QDir wildcard (<base>.*.<suffix>) instead of the anchored regular expression", "a second sink in the same directory whose base name is this one's plus a dotted component (server.log / server.access.log) and a finite limit on the shorter one"),
"C05-11": ("CRC-32 table moved into a helper whose 'generated' flag is set before the table is filled", "two compressing sinks on different threads doing the first compression of the process at the same moment"),
"C06-10": ("a failed unlink makes retention move on to the next-oldest rotated file", "one transient failure of the unlink of the retention victim"),
"C06-11": ("start-up re-compression of left-over uncompressed rotated files (gives an old file the newest modification time)", "Compression, one compression that failed earlier, later rotations, a restart, then enough rotations for retention to reach those files"),
"C07-10": ("IODeviceSink re-sends the whole record after a short write", "a write on the log file cut short and then failing once, for a record larger than QFile's 16 KiB buffer"),
"C07-11": ("next index from the last entry of a name-sorted listing (10 sorts before 9): rename refused, file keeps growing", "ten or more rotations of one day with indices 9 and 10 both retained"),
"C08-10": ("with Compression the live log file is compressed straight into the rotated .gz name, without the intermediate rename", "process death while the .gz is being written, then a restart: the truncated .gz has no uncompressed twin and stays as an invalid gzip that counts as a rotated file"),
"C08-11": ("gzip header with FNAME/MTIME; the name length is taken from the QString, not from its UTF-8 form", "a log file name with non-ASCII characters together with Compression"),
"C09-10": ("time stamp taken before the logger lock + daily rotation only for a *later* day", "a thread blocked on the logger mutex across midnight while another thread logs the first record of the new day"),
"C09-11": ("LogMessage::time() derived from the steady clock paired once with the wall clock", "the wall clock moves relative to the steady clock across a day boundary (clock set, suspend over midnight)"),
"C10-9": ("rotated files compressed in 4 MiB blocks, one qCompress() per block appended to one gzip member", "Compression and a rotated file larger than 4 MiB"),
"C10-10": ("with Compression the log file is first renamed to a fixed staging name; a stale staging file is removed before the rename", "process death after the rename to the staging name and before the .gz is complete, restart, one more rotation"),
"C11-10": ("flush() reuses the sink list of the previous flush, keyed only on the number of top-level handlers", "an earlier flush(), then a sink swapped (or added inside a nested pipeline) without changing the handler count, then a fatal message"),
"C11-11": ("every Logger destructor reinstates the previous Qt message handler", "a second Logger object destroyed while the global logger is the active one; later messages and the fatal bypass the logger"),
"C19-10": ("a sink whose write failed once stays switched off until setDevice() (which the file sinks never call)", "one transient write failure on the log file (disk full, file-size limit)"),
"C19-11": ("colour codes stripped by a scan from ESC[ to the next 'm' instead of the regular expression", "one-line configure() with a file, and a message containing a non-colour control sequence (ESC[2K ...)"),
}
try_log = open(sys.argv[1]).read() if len(sys.argv) > 1 and os.path.exists(sys.argv[1]) else ""
blocks = {}
cur = None
for l in try_log.splitlines():
    m = re.match(r"=== (\S+)", l)
    if m: cur = m.group(1); blocks[cur] = []; continue
    if cur: blocks[cur].append(l)
for sid, (change, needs) in R.items():
    d = "/verif/seeded/" + sid
    mp = d + "/meta.json"
    old = json.load(open(mp)) if os.path.exists(mp) else {}
    prop = sid.split("-")[0]
    recreated = any(f.startswith("patch.before-") for f in os.listdir(d))
    meta = {
        "id": sid, "breaks_property": prop, "change": change, "needs_to_manifest": needs,
        "source": "independent sub-agent (fifth round) given only the property text, a scratch worktree and one-line descriptions of the earlier changes to avoid",
        "made_against_repo_commit": "75c581b",
        "applies_to_repo_commit": "a93ca02" + (" (re-created: src part merged 3-way, single header regenerated)" if recreated else ""),
        "confirmed": {"how": "tools/verify_seed.sh <worktree> <n> (on 75c581b)", "baseline_suite_with_change": "18/18 passed",
                      "demo_with_change": "fails (exit 1)", "demo_without_change": "passes (exit 0)"},
    }
    det = old.get("detected_by"); first = old.get("first_try")
    if sid in blocks:
        lines = blocks[sid]
        hits = []
        for i, l in enumerate(lines):
            m = re.match(r"(C\d\d) (DETECTED|MISSED|ERROR)", l)
            if m:
                cls = ""
                for l2 in lines[i+1:i+4]:
                    m2 = re.search(r"replay=\S*/(C\d\d[A-Z]?)-(.+?)-[0-9a-f]{16}\.json", l2)
                    if m2: cls = m2.group(2); break
                hits.append((m.group(1), m.group(2), cls))
        meta["tried"] = [{"check": "./check %s quick" % h[0], "outcome": h[1], "violation_class": h[2]} for h in hits]
        d1 = [h for h in hits if h[1] == "DETECTED"]
        if d1:
            meta["detected_by"] = {"property": d1[0][0], "violation_class": d1[0][2], "check": "./check %s quick" % d1[0][0],
                                   "how_run": "tools/trypatch.py seeded/%s/patch.diff %s" % (sid, d1[0][0])}
            if "first_try" not in old: meta["first_try"] = "caught"
        else:
            meta["detected_by"] = None
            if "first_try" not in old: meta["first_try"] = "missed"
    for k in ("first_try", "note"):
        if k in old and k not in meta: meta[k] = old[k]
    if "detected_by" not in meta and det: meta["detected_by"] = det
    json.dump(meta, open(mp, "w"), indent=1, ensure_ascii=False)
print("ok")
