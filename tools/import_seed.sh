#!/bin/bash
# tools/import_seed.sh <agent-worktree> <n> <seeded-id>: copy a confirmed seeded change into /verif/seeded/<id>/ and
# re-create its patch on /repo's HEAD (src/ part applied with a 3-way merge in a scratch worktree, single header regenerated).
WT=$1; N=$2; ID=$3; S=$WT/_seeded/$N; D=/verif/seeded/$ID
[ -f $S/patch.diff ] || { echo "IMPORT $ID no patch"; exit 1; }
mkdir -p $D; rm -rf $D/demo; cp -r $S/demo $D/demo 2>/dev/null; rm -rf $D/demo/build; cp $S/README.agent.md $D/ 2>/dev/null
BASE=$(git -C $WT rev-parse --short HEAD); HEAD=$(git -C /repo rev-parse --short HEAD)
if git -C /repo apply --check $S/patch.diff 2>/dev/null; then cp $S/patch.diff $D/patch.diff; echo "IMPORT $ID applies-as-is base=$BASE head=$HEAD"; exit 0; fi
SCR=/tmp/imp-$$; git -C /repo worktree add -q --detach $SCR HEAD || exit 2
( cd $SCR && git apply -3 --exclude=qtlogger.h $S/patch.diff >/tmp/imp-$$.log 2>&1 && ! grep -rl '^<<<<<<< ' src >/dev/null && python3 tools/gen_qtlogger.h.py >/dev/null 2>&1 && git diff HEAD > $D/patch.diff )
RC=$?
git -C /repo worktree remove --force $SCR
if [ $RC -eq 0 ] && [ -s $D/patch.diff ]; then cp $S/patch.diff $D/patch.before-$HEAD.diff; echo "IMPORT $ID re-created-on-$HEAD base=$BASE"; else echo "IMPORT $ID CONFLICT"; cat /tmp/imp-$$.log | tail -5; fi
rm -f /tmp/imp-$$.log
