#!/bin/bash
# re-validation after the round-5 repairs: re-created seeded patches must still be detected, re-created benign ones stay silent,
# and the benign corpus is run against the checks whose oracles or workloads changed in round 5
cd "$(dirname "$0")/.."
./check build >/dev/null 2>&1
echo "== sensitivity (re-created seeded patches)"
python3 tools/sensitivity.py C03-1 C03-7 C05-2 C05-3 C05-8 C08-2 C08-4 C08-5 C08-7 C08-9 C10-1 C10-2 2>&1 | grep -v "^WARNING"
echo "== benign (re-created)"
python3 tools/benign.py C05-b2 C05-b3 C06-b2 C08-b1 C08-b2 C08-b3 C09-b1 C10-b2 2>&1 | grep -v "^WARNING"
echo "== benign (all others)"
python3 tools/benign.py $(ls benign | grep -v "obsolete\|C05-b2\|C05-b3\|C06-b2\|C08-b1\|C08-b2\|C08-b3\|C09-b1\|C10-b2") 2>&1 | grep -v "^WARNING"
echo "== done"
