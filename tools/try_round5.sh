#!/bin/bash
# fifth round of seeded changes against the checks (run from a snapshot: vp run -- bash tools/try_round5.sh)
cd "$(dirname "$0")/.."
./check build >/dev/null 2>&1
try() { id=$1; shift; echo "=== $id"; python3 tools/trypatch.py seeded/$id/patch.diff "$@" 2>&1 | grep -v "^WARNING"; }
try C08-10 C08 C10
try C08-11 C08
try C05-10 C06 C05
try C05-11 C08
try C06-10 C10 C06
try C06-11 C06
try C07-10 C07
try C07-11 C07
try C09-10 C09
try C09-11 C09
try C10-10 C10
try C03-10 C03
try C03-11 C03 C04
try C02-10 C02 C04
try C02-11 C02
try C04-10 C04
try C04-11 C04
try C11-10 C11
try C11-11 C11
try C19-10 C19
try C19-11 C19
echo "=== done"
