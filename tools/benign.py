#!/usr/bin/env python3
"""False-alarm regression: apply each benign/<id>/patch.diff (a behaviour-changing but property-preserving
change written by an independent sub-agent) and require the quick checks listed in must_stay_silent to
exit 0.   tools/benign.py [id ...]      (env VERIF_FLAVOURS=plain for speed, VERIF_REPO for an isolated copy)"""
import glob, json, os, subprocess, sys
VERIF = os.path.dirname(os.path.dirname(os.path.abspath(__file__)))
ids = sys.argv[1:] or sorted(os.path.basename(os.path.dirname(p)) for p in glob.glob(os.path.join(VERIF, "benign", "*", "meta.json")))
bad = 0
for bid in ids:
    meta = json.load(open(os.path.join(VERIF, "benign", bid, "meta.json")))
    props = meta["must_stay_silent"]
    r = subprocess.run([os.path.join(VERIF, "tools", "trypatch.py"), os.path.join(VERIF, "benign", bid, "patch.diff")] + props,
                       capture_output=True, text=True)
    lines = [l for l in r.stdout.splitlines() if l[:3] in props]
    alarms = [l for l in lines if "MISSED" not in l]
    if alarms or len(lines) != len(props):
        bad += 1
    print("%-7s %s" % (bid, "silent" if not alarms and len(lines) == len(props) else "ALARM: " + "; ".join(alarms or [r.stdout.strip()[-200:]])))
    for l in r.stdout.splitlines():
        if l.strip().startswith("violation:") and alarms:
            print("        " + l.strip()[:260])
    sys.stdout.flush()
sys.exit(1 if bad else 0)
